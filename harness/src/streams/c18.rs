//! C18 — QML components in directories resolve as custom widgets, in any order.
//!
//! A case is a directory layout of generated `.qml` files plus an ordered list of sources:
//!
//!   (c18 (qt ("QWidget" true ("windowTitle" …)) …)
//!        (tree (dir ("a" "b") (file "X" true (imports (named "qmluic.QtWidgets") (dir ".." "sib")) (root "QWidget" _)
//!                                    (children ("A" _) ("QLabel" "text"))) …) …)
//!        (sources (("a" "b") "X") …))
//!
//! The layout is materialised under `std::env::temp_dir()` (removed afterwards), then — exactly like
//! `generate-ui` / `tests/common::translate_file` — one `TypeMap` + `UiDocumentsCache` is filled by
//! `qmldir::populate_directories` for ALL sources in the given order and every source is translated with
//! `uigen::build`.  Answer:
//!
//!   (c18 (dirs "" "a" "a/b" …)                                      ; directory modules in the type map
//!        (modules ("a/b" ("X" (ok "QWidget")) ("Y" (err "…"))) …)  ; components and their resolved super class
//!        (outputs ("a/b/X.qml" (accepted b) (built b) (diags "…"…) (widgets (class prop…)…)
//!                  (customwidgets (class extends header)…)) …))
//!
//! kinds: `c18` = model (one case per permutation of the sources), `spec-c18-dirs` = spec (reachability),
//! `c18-perms` / `c18-exact` / `c18-reach` = oracles evaluated here on the real outputs.
//! `c18-cli` (oracle) and `c18-cliout` (model) run the real `qmluic generate-ui` BINARY built from /repo's
//! current working tree (`crate::env::cli_binary()`, `$QV_QMLUIC_BIN` overrides) in a fresh copy of the layout:
//! `c18-cli`: exit status and the set + content of the written `.ui` files are the same for every order of the
//! source arguments (≤ 6 orders per generated layout — the given one, its reverse, the sorted one the preflight ran
//! with, and others spread over the enumeration; all orders in the corpus; a run of the binary is made once per
//! (layout, order, flags) and shared between `c18-cli6`, `c18-cliout` and the preflight); `c18-cliout`: exit status and
//! written files equal the Lean model's `cliRun` over the per-source outcomes — answer
//!   (cli (exit 0|1) (written "a/x.ui" …)).
//!
//! Added for the import-spelling / processed-once / termination clauses:
//!  * a layout may hold symbolic links to directories, `(link ("a" "ln") ("b"))` inside `(tree …)`; such layouts are
//!    outside the Lean model (canonical component lists) and get the Rust-side oracles only;
//!  * and symbolic links to QML files, `(flink ("a") "Alias" ("b") "X")` (family "file-alias", generated once finding
//!    F50 is listed in KNOWN_FINDINGS.json);
//!  * PREFLIGHT: before anything is run in-process, the real binary is run once per (layout, source set) with
//!    `QMLUIC_LOG=qmluic::qmldir=trace`, its memory limited (`ulimit -v`) and killed as soon as it has logged more
//!    `processing directory` lines than there are directories (or after a time limit): a discovery that does not
//!    terminate, or blows up, is reported as `(fail "preflight" …)` for every request on that layout instead of
//!    taking the harness down;
//!  * `c18-once` (oracle, the real binary's log): every directory is processed exactly once — no canonical directory
//!    twice, every file of a processed directory once, and the processed set = the directories reachable on the real
//!    file system (`canonicalize`d, so `..`, `./`, `//`, trailing `/`, symlinks and two spellings of one directory
//!    are one directory);
//!  * `c18-resolve` (oracle, in-process): for every source, the number of "module not found" diagnostics = the number
//!    of its imports that do not lead to an existing directory (resp. are unknown named modules), there is no
//!    "directory module not found", and a type `X` with an `X.qml` (with root object) in the source's directory or
//!    in an imported existing directory is never an "unknown object type"; and an instance of a component whose chain
//!    of root types leads (unambiguously, judged on the files) to a Qt class that has the bound property is not
//!    diagnosed with "unknown property" and carries the property in the .ui;
//!  * `c18-nolower` (oracle, the real binary with `--no-lowercase-file-name`): an accepted source `dir/X.qml` is
//!    written to `dir/X.ui` and every `<customwidget>` header is `<Class>.h` in the original case.
//!
//! Added for chains of components (component -> component -> … -> Qt class):
//!  * the "chain" family (`gen_chain_layout`, labels `chain`, `chain:len<k>`, `chain:within|across|mixed`,
//!    `chain:end:widget|layout|action|object|unknown|cycle`, `chain:cyclelen<n>`, `chain:into-cycle`, `chain:prop:<p>`,
//!    `chain:bad-prop:<p>`): chains of length 1..=4 in one directory, with every link in another directory (imported by
//!    string under the spellings of `spell`; the using document imports the first directory only, deeper links resolve
//!    through the imports of the component that names them) or mixed; a binding and children at every level; using
//!    documents that instantiate every component as root and as child with bindings of properties of the class the chain
//!    ends in (own and inherited), one property that class does not have, and a document that does not touch the chain;
//!    the component files are sources too;
//!  * the `(qt …)` table also summarises QVBoxLayout, QHBoxLayout and QAction (4th element `layout` / `action`); the
//!    `widgets` of an answer list the root widget's `<widget>`, `<layout>` and `<action>` children in document order
//!    (an `<action>` has no class: it is reported as QAction);
//!  * `c18-judge` / `c18-judge-all` (oracle, in-process AND the real binary): what every source must come to is decided
//!    from the layout and the real file system alone (`Judge`: a name is a Qt class if the file imports the Qt module, or
//!    the component `<name>.qml` of a directory the file sees; a component is what its own root object is, seen from the
//!    component's file; a chain ends in a Qt class, in a name that does not resolve, or in a cycle).  Demanded: exactly
//!    the diagnostics the files call for — so a document in which everything resolves, every chain ends in a class of the
//!    right kind (root: a widget; child: a widget, a layout or an action) and every bound property exists on the class
//!    the chain ends in MUST be accepted, and a fault (unknown type, unknown property, a chain that ends in QObject, in
//!    nothing or in a cycle, a non-widget root) must be diagnosed with its message and nothing else; every object of an
//!    accepted document is in the `.ui` under its class with its binding; `<customwidgets>` = the components the
//!    document instantiates, each once, `extends` = the root type written in the component's own file (the DIRECT super),
//!    header by the file-name rule, ancestors that are not instantiated are not listed; the real binary writes the `.ui`
//!    of exactly the good documents (same `<customwidgets>`) and exits with 1 iff a judged source is faulty, 0 if all are
//!    good.  Where the reading of the files is not unambiguous (same name in two visible directories, a component called
//!    like a Qt class, a file without root object, an unknown named module in a component) the document is not judged
//!    (`c18-judge`: counted; `c18-judge-all`, used for the chain family and the corpus: a failure).
//!
//! Added for the FORMS of an import statement:
//!  * an import node may carry a version and/or an alias: `(named "qmluic.QtWidgets" (version "6.2"))`,
//!    `(named "M" (alias "W"))`, `(dir (version "1.0") ".." "b")`, `(dir (alias "B") ".." "b")` (plain nodes as before);
//!    the files are written with `import M 6.2`, `import "../b" 1.0`, `import "../b" as B`.  What qmluic does with them
//!    (both where it reads the import list of a discovered component and where it builds the module space of the document
//!    being translated): a version is a WARNING "import version is ignored" and the statement counts as usual; an alias
//!    is an ERROR "aliased import is not supported" and the statement is SKIPPED — the document that carries it is
//!    rejected, a discovered component loses that import (its root type may no longer resolve; the directory of an
//!    aliased string import is not discovered through it) while the error only goes to the project diagnostics (printed,
//!    exit status unaffected).  The `diags` of an answer hold errors and warnings alike; `accepted` = no error.
//!  * every oracle reads import lists through `live` (the statements that count); the judge expects the statement
//!    diagnostics of the SOURCE and lets the warning pass;
//!  * the "imports" family (`gen_import_layout`, labels `imports`, `imports:len<k>`, `imports:focus:<style>`,
//!    `imports:in-source|in-component`, `imports:versioned-named|versioned-dir|aliased|aliased-named|aliased-dir|
//!    duplicate|own-dir-explicit|unused|qt-last|only-route-versioned|only-route-aliased|version-and-alias|
//!    chain-mixed-styles|all-random`): a chain of 1..=3 components, each in a directory of its own, used by `app/Main`;
//!    every link (a file's import of the next directory, of the Qt module) in one of 15 styles; the chain family gives a
//!    version to one statement in five.
use crate::env::{self, Mode};
use crate::rng::Rng;
use crate::sexp::{atom, boolean, list, node, st, Sexp};
use crate::xml;
use crate::{Case, Stream};
use camino::Utf8PathBuf;
use qmluic::diagnostic::ProjectDiagnostics;
use qmluic::metatype;
use qmluic::metatype_tweak;
use qmluic::qmldir;
use qmluic::qmldoc::UiDocumentsCache;
use qmluic::typemap::{ModuleData, ModuleId, NamedType, TypeMap, TypeSpace};
use std::collections::{BTreeMap, BTreeSet, HashMap};
use std::fs;
use std::sync::atomic::{AtomicU64, Ordering};
use std::sync::{Arc, Mutex, OnceLock};

const QT_MODULE: &str = "qmluic.QtWidgets";
/// Qt classes a generated file may name (all are plain widgets except QObject)
const QT_CLASSES: [&str; 8] = ["QWidget", "QDialog", "QLabel", "QPushButton", "QFrame", "QGroupBox", "QLineEdit", "QObject"];
/// candidate bindings: property name and a constant of its type
const PROPS: [(&str, &str); 9] = [
    ("windowTitle", "\"t\""),
    ("toolTip", "\"tip\""),
    ("enabled", "false"),
    ("text", "\"x\""),
    ("title", "\"g\""),
    ("flat", "true"),
    ("lineWidth", "2"),
    ("checkable", "true"),
    ("sizeGripEnabled", "true"),
];
/// non-widget Qt classes the chain family ends in: layouts and the action class.  Measured like `QT_CLASSES`; their
/// `(qt …)` entry carries a 4th element naming the kind (old three-element entries keep their meaning).
const QT_EXTRA: [&str; 3] = ["QVBoxLayout", "QHBoxLayout", "QAction"];
/// candidate bindings that exist on layouts only (never picked by the generic generator)
const EXTRA_PROPS: [(&str, &str); 1] = [("spacing", "3")];
const STEMS: [&str; 12] = ["A", "B", "C", "D", "E", "MyBox", "Panel", "SettingsForm", "QFrame", "Main", "Zed", "Item2"];
const DIR_NAMES: [&str; 7] = ["a", "b", "common", "sub", "ui", "Deep", "x1"];

static COUNTER: AtomicU64 = AtomicU64::new(0);

/// one of the Qt classes the generators name (and the `(qt …)` table summarises)
fn is_table_class(ty: &str) -> bool {
    QT_CLASSES.contains(&ty) || QT_EXTRA.contains(&ty)
}

pub struct C18 {
    classes: Vec<metatype::Class>,
    qt: Vec<QtInfo>,
    /// every class name of the real Qt module (a generated type of that name is judged by no file-system oracle)
    qt_names: BTreeSet<String>,
    preflights: Mutex<HashMap<String, Arc<OnceLock<Result<Preflight, String>>>>>,
    /// runs of the real binary, keyed by layout + ORDERED source list + flags (the preflight run is one of them)
    cli_runs: Mutex<HashMap<String, Arc<OnceLock<CliOut>>>>,
    /// in-process runs (populate_directories + uigen::build of every source), keyed by layout + ORDERED source list
    real_runs: Mutex<HashMap<String, Arc<OnceLock<Result<RunOut, Sexp>>>>>,
}

type CliOut = (i32, BTreeMap<String, String>);

/// what `UiObject::build` makes of an object of a class (measured: derives from QAction / QLayout / QWidget)
#[derive(Clone, Copy, Debug, PartialEq, Eq)]
enum Kind {
    Widget,
    Layout,
    Action,
    Other,
}

/// summary of one Qt class, measured on the real type map
#[derive(Clone, Debug)]
struct QtInfo {
    name: String,
    is_widget: bool,
    kind: Kind,
    /// the candidate property names (`PROPS`, `EXTRA_PROPS`) `Class::get_property` resolves on the class
    props: Vec<String>,
}

/// what the real binary logged while discovering directories for one (layout, source set)
#[derive(Clone, Debug)]
struct Preflight {
    exit: i32,
    /// `processing directory` lines: (path as logged, canonical path relative to the layout root)
    dirs: Vec<(String, String)>,
    /// `processing file` lines, canonical and relative to the layout root
    files: Vec<String>,
}

impl C18 {
    pub fn new() -> Self {
        let mut classes = env::load_qt_classes();
        metatype_tweak::apply_all(&mut classes);
        let qt_names: BTreeSet<String> = classes.iter().map(|c| c.class_name.clone()).collect();
        let mut me = C18 { classes, qt: vec![], qt_names, preflights: Mutex::new(HashMap::new()), cli_runs: Mutex::new(HashMap::new()), real_runs: Mutex::new(HashMap::new()) };
        // the Qt side of the model is MEASURED on the real type map
        let tm = me.fresh_type_map();
        let module = tm.get_module(ModuleId::Named(QT_MODULE)).unwrap();
        let class_of = |n: &str| match module.get_type(n) {
            Some(Ok(NamedType::Class(c))) => c,
            other => panic!("Qt class {n} not found: {other:?}"),
        };
        let widget = class_of("QWidget");
        let layout = class_of("QLayout");
        let action = class_of("QAction");
        me.qt = QT_CLASSES
            .iter()
            .chain(QT_EXTRA.iter())
            .map(|n| {
                let c = class_of(n);
                let props = PROPS
                    .iter()
                    .chain(EXTRA_PROPS.iter())
                    .filter(|(p, _)| match c.get_property(p) {
                        // the model only knows "found": every candidate must be writable where it exists
                        Some(Ok(d)) => {
                            assert!(d.is_writable(), "candidate property {p} of {n} is not writable");
                            true
                        }
                        Some(Err(e)) => panic!("property {p} of {n}: {e}"),
                        None => false,
                    })
                    .map(|(p, _)| p.to_string())
                    .collect();
                // the order of the tests is the order of `UiObject::build`
                let kind = if c.is_derived_from(&action) {
                    Kind::Action
                } else if c.is_derived_from(&layout) {
                    Kind::Layout
                } else if c.is_derived_from(&widget) {
                    Kind::Widget
                } else {
                    Kind::Other
                };
                // the generic generator's classes are plain widgets (or QObject): the model of old requests relies on it
                assert!(!QT_CLASSES.contains(n) || matches!(kind, Kind::Widget | Kind::Other), "{n}: unexpected kind {kind:?}");
                QtInfo { name: n.to_string(), is_widget: c.is_derived_from(&widget), kind, props }
            })
            .collect();
        drop(module);
        drop(tm);
        me
    }

    fn fresh_type_map(&self) -> TypeMap {
        let mut type_map = TypeMap::with_primitive_types();
        let mut md = ModuleData::with_builtins();
        md.extend(self.classes.clone());
        type_map.insert_module(ModuleId::Named(QT_MODULE), md);
        type_map
    }

    fn qt_sexp(&self) -> Sexp {
        node(
            "qt",
            self.qt
                .iter()
                .map(|q| {
                    let mut v = vec![st(q.name.clone()), boolean(q.is_widget), list(q.props.iter().map(|p| st(p.clone())).collect())];
                    match q.kind {
                        Kind::Layout => v.push(atom("layout")),
                        Kind::Action => v.push(atom("action")),
                        Kind::Widget | Kind::Other => {}
                    }
                    list(v)
                })
                .collect(),
        )
    }
}

// ---------------------------------------------------------------------------------------------
// layouts

#[derive(Clone, Debug, PartialEq)]
enum Import {
    Named(String),
    Dir(Vec<String>),
}

/// An import STATEMENT: what is imported plus the version (`import M 6.2`, `import "../b" 1.0`) and the alias
/// (`import M as W`) the grammar admits.  qmluic reports a version ("import version is ignored", a warning) and then
/// handles the statement like the plain one; it reports an alias ("aliased import is not supported", an error) and
/// SKIPS the statement — in the document being translated and in a discovered component alike.
#[derive(Clone, Debug, PartialEq)]
struct ImportStmt {
    what: Import,
    version: Option<String>,
    alias: Option<String>,
}

impl From<Import> for ImportStmt {
    fn from(what: Import) -> Self {
        ImportStmt { what, version: None, alias: None }
    }
}

fn plain(v: Vec<Import>) -> Vec<ImportStmt> {
    v.into_iter().map(Into::into).collect()
}

/// the imports that count: everything but the aliased statements, in source order
fn live(stmts: &[ImportStmt]) -> impl Iterator<Item = &Import> {
    stmts.iter().filter(|s| s.alias.is_none()).map(|s| &s.what)
}

#[derive(Clone, Debug)]
struct Obj {
    ty: String,
    prop: Option<String>,
}

#[derive(Clone, Debug)]
struct QmlFile {
    stem: String,
    has_root: bool,
    imports: Vec<ImportStmt>,
    root: Obj,
    children: Vec<Obj>,
}

#[derive(Clone, Debug)]
struct Dir {
    path: Vec<String>,
    files: Vec<QmlFile>,
}

#[derive(Clone, Debug)]
struct Layout {
    dirs: Vec<Dir>,
    /// symbolic links to directories: (path of the link, path of the directory it points to)
    links: Vec<(Vec<String>, Vec<String>)>,
    /// symbolic links to QML files, `(flink (dir…) "Alias" (dir…) "X")`: `dir/Alias.qml -> dir'/X.qml`
    flinks: Vec<(Vec<String>, String, Vec<String>, String)>,
}

type Source = (Vec<String>, String);

fn path_sexp(p: &[String]) -> Sexp {
    list(p.iter().map(|s| st(s.clone())).collect())
}

fn obj_fields(o: &Obj) -> Vec<Sexp> {
    vec![st(o.ty.clone()), o.prop.as_ref().map(|p| st(p.clone())).unwrap_or(atom("_"))]
}

impl Layout {
    /// the `.qml` files of directory `d` as `read_dir` shows them: the files themselves and the symbolic links to files
    /// (an alias is a QML file of its own name whose content is that of its target)
    fn files_of(&self, d: &[String]) -> Vec<(String, &QmlFile)> {
        let mut v: Vec<(String, &QmlFile)> =
            self.dirs.iter().filter(|x| x.path == d).flat_map(|x| x.files.iter().map(|f| (f.stem.clone(), f))).collect();
        for (ld, ls, td, ts) in &self.flinks {
            if ld == d {
                if let Some(f) = self.dirs.iter().filter(|x| &x.path == td).flat_map(|x| x.files.iter()).find(|f| &f.stem == ts) {
                    v.push((ls.clone(), f));
                }
            }
        }
        v
    }

    fn to_sexp(&self) -> Sexp {
        node(
            "tree",
            self.dirs
                .iter()
                .map(|d| {
                    let mut v = vec![path_sexp(&d.path)];
                    for f in &d.files {
                        let imps = f
                            .imports
                            .iter()
                            .map(|i| {
                                // `(version "6.2")` / `(alias "W")` follow the name resp. precede the segments
                                let mut opts = vec![];
                                if let Some(v) = &i.version {
                                    opts.push(node("version", vec![st(v.clone())]));
                                }
                                if let Some(a) = &i.alias {
                                    opts.push(node("alias", vec![st(a.clone())]));
                                }
                                match &i.what {
                                    Import::Named(n) => node("named", std::iter::once(st(n.clone())).chain(opts).collect()),
                                    Import::Dir(segs) => node("dir", opts.into_iter().chain(segs.iter().map(|s| st(s.clone()))).collect()),
                                }
                            })
                            .collect();
                        v.push(node(
                            "file",
                            vec![
                                st(f.stem.clone()),
                                boolean(f.has_root),
                                node("imports", imps),
                                node("root", obj_fields(&f.root)),
                                node("children", f.children.iter().map(|o| list(obj_fields(o))).collect()),
                            ],
                        ));
                    }
                    node("dir", v)
                })
                .chain(self.links.iter().map(|(l, t)| node("link", vec![path_sexp(l), path_sexp(t)])))
                .chain(self.flinks.iter().map(|(ld, ls, td, ts)| node("flink", vec![path_sexp(ld), st(ls.clone()), path_sexp(td), st(ts.clone())])))
                .collect(),
        )
    }

    fn from_sexp(s: &Sexp) -> Option<Layout> {
        let (tag, ds) = s.as_node()?;
        if tag != "tree" {
            return None;
        }
        let strs = |x: &Sexp| -> Option<Vec<String>> { x.as_list()?.iter().map(|s| s.as_str().map(str::to_owned)).collect() };
        let obj = |x: &[Sexp]| -> Option<Obj> {
            Some(Obj { ty: x.first()?.as_str()?.to_owned(), prop: x.get(1)?.as_str().map(str::to_owned) })
        };
        let mut dirs = vec![];
        let mut links = vec![];
        let mut flinks = vec![];
        for d in ds {
            let (kind, a) = d.as_node()?;
            if kind == "link" {
                links.push((strs(a.first()?)?, strs(a.get(1)?)?));
                continue;
            }
            if kind == "flink" {
                flinks.push((strs(a.first()?)?, a.get(1)?.as_str()?.to_owned(), strs(a.get(2)?)?, a.get(3)?.as_str()?.to_owned()));
                continue;
            }
            let path = strs(a.first()?)?;
            let mut files = vec![];
            for f in &a[1..] {
                let (_, fa) = f.as_node()?;
                let mut imports = vec![];
                for i in fa[2].as_node()?.1 {
                    let (k, ia) = i.as_node()?;
                    // options are lists, everything else is a string (the name resp. the segments)
                    let (mut version, mut alias, mut rest) = (None, None, vec![]);
                    for x in ia {
                        match x.as_node() {
                            Some(("version", v)) => version = Some(v.first()?.as_str()?.to_owned()),
                            Some(("alias", v)) => alias = Some(v.first()?.as_str()?.to_owned()),
                            Some(_) => return None,
                            None => rest.push(x.as_str()?.to_owned()),
                        }
                    }
                    let what = match k {
                        "named" if rest.len() == 1 => Import::Named(rest.remove(0)),
                        "dir" => Import::Dir(rest),
                        _ => return None,
                    };
                    imports.push(ImportStmt { what, version, alias });
                }
                let children = fa[4].as_node()?.1.iter().map(|o| obj(o.as_list()?)).collect::<Option<_>>()?;
                files.push(QmlFile {
                    stem: fa[0].as_str()?.to_owned(),
                    has_root: fa[1].as_bool()?,
                    imports,
                    root: obj(fa[3].as_node()?.1)?,
                    children,
                });
            }
            dirs.push(Dir { path, files });
        }
        Some(Layout { dirs, links, flinks })
    }

    fn is_dir(&self, p: &[String]) -> bool {
        self.dirs.iter().any(|d| d.path == p)
    }

    /// generator-side guard: `..` above the root of the layout (the model refuses such inputs)
    fn escapes(&self, base: &[String], segs: &[String]) -> bool {
        let mut p = base.to_vec();
        for s in segs {
            match s.as_str() {
                "." | "" => {}
                ".." => {
                    if p.is_empty() {
                        return true;
                    }
                    p.pop();
                }
                n => {
                    p.push(n.to_owned());
                    if !self.is_dir(&p) {
                        return false;
                    }
                }
            }
        }
        false
    }
}

fn qml_text(f: &QmlFile) -> String {
    let mut s = String::new();
    for i in &f.imports {
        match &i.what {
            Import::Named(n) => s.push_str(&format!("import {n}")),
            Import::Dir(segs) => s.push_str(&format!("import \"{}\"", segs.join("/"))),
        }
        if let Some(v) = &i.version {
            s.push_str(&format!(" {v}"));
        }
        if let Some(a) = &i.alias {
            s.push_str(&format!(" as {a}"));
        }
        s.push('\n');
    }
    if !f.has_root {
        return s;
    }
    let binding = |o: &Obj| -> String {
        match &o.prop {
            Some(p) => {
                let v = PROPS.iter().chain(EXTRA_PROPS.iter()).find(|(n, _)| n == p).map(|(_, v)| *v).unwrap_or("0");
                format!(" {p}: {v} ")
            }
            None => String::new(),
        }
    };
    s.push_str(&format!("\n{} {{\n", f.root.ty));
    if f.root.prop.is_some() {
        s.push_str(&format!("   {}\n", binding(&f.root)));
    }
    for c in &f.children {
        s.push_str(&format!("    {} {{{}}}\n", c.ty, binding(c)));
    }
    s.push_str("}\n");
    s
}

fn relative(from: &[String], to: &[String]) -> Vec<String> {
    let common = from.iter().zip(to).take_while(|(a, b)| a == b).count();
    let mut v: Vec<String> = (common..from.len()).map(|_| "..".to_owned()).collect();
    v.extend(to[common..].iter().cloned());
    if v.is_empty() {
        v.push(".".to_owned());
    }
    v
}

fn gen_layout(rng: &mut Rng) -> (Layout, Vec<String>) {
    let mut labels = vec![];
    // directories: the root (always a directory, seldom with files) and 1..=5 more, parent-closed
    let n_dirs = 1 + rng.below(5);
    let mut paths: Vec<Vec<String>> = vec![vec![]];
    while paths.len() < n_dirs + 1 {
        let parent = rng.pick(&paths).clone();
        if parent.len() >= 3 {
            continue;
        }
        let mut p = parent;
        p.push((*rng.pick(&DIR_NAMES)).to_owned());
        if !paths.contains(&p) {
            paths.push(p);
        }
    }
    let mut all_stems: Vec<String> = vec![];
    let mut dirs: Vec<Dir> = paths
        .iter()
        .map(|p| {
            let n_files = if p.is_empty() {
                if rng.chance(1, 3) { 1 + rng.below(3) } else { 0 }
            } else if rng.chance(1, 12) {
                0
            } else {
                1 + rng.below(6)
            };
            let mut stems: Vec<String> = vec![];
            while stems.len() < n_files {
                let s = (*rng.pick(&STEMS)).to_owned();
                if !stems.contains(&s) {
                    stems.push(s);
                }
            }
            all_stems.extend(stems.iter().cloned());
            Dir {
                path: p.clone(),
                files: stems
                    .into_iter()
                    .map(|stem| QmlFile { stem, has_root: true, imports: vec![], root: Obj { ty: String::new(), prop: None }, children: vec![] })
                    .collect(),
            }
        })
        .collect();
    if all_stems.is_empty() {
        all_stems.push("A".to_owned());
    }
    let layout_dirs = Layout { dirs: dirs.clone(), links: vec![], flinks: vec![] };
    // half of the layouts are "clean": imports lead to existing directories, types are Qt widgets or components
    // the file can see, bindings are QWidget properties — so that many documents are accepted
    let clean = rng.chance(1, 2);
    labels.push(if clean { "clean" } else { "noisy" }.to_owned());
    let gen_type = |rng: &mut Rng, pool: &[String]| -> String {
        if clean {
            return if pool.is_empty() || rng.chance(1, 2) { (*rng.pick(&QT_CLASSES[..7])).to_owned() } else { rng.pick(pool).clone() };
        }
        match rng.below(20) {
            0..=8 => (*rng.pick(&QT_CLASSES[..7])).to_owned(),
            9..=17 => rng.pick(pool).clone(),
            18 => "Missing".to_owned(),
            _ => "QObject".to_owned(),
        }
    };
    let gen_prop = |rng: &mut Rng| -> Option<String> {
        match rng.below(10) {
            0..=4 => None,
            5..=7 => Some((*rng.pick(&PROPS[..3])).0.to_owned()),
            _ if clean => Some((*rng.pick(&PROPS[..3])).0.to_owned()),
            _ => Some(rng.pick(&PROPS).0.to_owned()),
        }
    };
    let stems_of: Vec<(Vec<String>, Vec<String>)> =
        dirs.iter().map(|d| (d.path.clone(), d.files.iter().map(|f| f.stem.clone()).collect())).collect();
    for d in dirs.iter_mut() {
        let base = d.path.clone();
        for f in d.files.iter_mut() {
            f.has_root = !rng.chance(1, if clean { 60 } else { 25 });
            let mut imports = vec![];
            let mut visible: Vec<Vec<String>> = vec![base.clone()];
            let n_imp = rng.below(4);
            for _ in 0..n_imp {
                let segs: Vec<String> = match if clean { 3 + rng.below(5) } else { rng.below(12) } {
                    0 => vec![".".into()],
                    1 => vec!["..".into()],
                    2 => vec!["..".into(), (*rng.pick(&DIR_NAMES)).into()],
                    3..=7 => {
                        let target = rng.pick(&paths).clone();
                        visible.push(target.clone());
                        relative(&base, &target)
                    }
                    8 => vec!["nope".into()],
                    9 => vec!["missing".into(), "..".into(), (*rng.pick(&DIR_NAMES)).into()],
                    10 => {
                        // a file name, a trailing slash, or a trailing "."
                        match rng.below(3) {
                            0 => vec![format!("{}.qml", rng.pick(&all_stems))],
                            1 => {
                                let mut v = relative(&base, &rng.pick(&paths).clone());
                                v.push(String::new());
                                v
                            }
                            _ => {
                                let mut v = relative(&base, &rng.pick(&paths).clone());
                                v.push(".".into());
                                v
                            }
                        }
                    }
                    _ => {
                        let mut v = relative(&base, &rng.pick(&paths).clone());
                        v.push((*rng.pick(&DIR_NAMES)).into());
                        v
                    }
                };
                if !layout_dirs.escapes(&base, &segs) {
                    imports.push(Import::Dir(segs));
                }
            }
            if !clean && rng.chance(1, 25) {
                imports.push(Import::Named("Unknown.Module".into()));
            }
            if clean || rng.chance(9, 10) {
                let at = if clean || rng.chance(3, 4) { 0 } else { rng.below(imports.len() + 1) };
                imports.insert(at, Import::Named(QT_MODULE.into()));
            }
            f.imports = plain(imports);
            let pool: Vec<String> = if clean {
                stems_of.iter().filter(|(p, _)| visible.contains(p)).flat_map(|(_, s)| s.iter().cloned()).collect()
            } else {
                all_stems.clone()
            };
            f.root = Obj { ty: gen_type(rng, &pool), prop: gen_prop(rng) };
            let n_children = rng.below(5);
            f.children = (0..n_children).map(|_| Obj { ty: gen_type(rng, &pool), prop: gen_prop(rng) }).collect();
        }
    }
    // planted structure: mutually importing directories, mutually inheriting / self-inheriting components
    let with_files: Vec<usize> = (0..dirs.len()).filter(|&i| !dirs[i].files.is_empty()).collect();
    if with_files.len() >= 2 && rng.chance(1, 2) {
        let i = *rng.pick(&with_files);
        let j = *rng.pick(&with_files);
        if i != j {
            let (pi, pj) = (dirs[i].path.clone(), dirs[j].path.clone());
            let fi = rng.below(dirs[i].files.len());
            dirs[i].files[fi].imports.push(Import::Dir(relative(&pi, &pj)).into());
            let fj = rng.below(dirs[j].files.len());
            dirs[j].files[fj].imports.push(Import::Dir(relative(&pj, &pi)).into());
            labels.push("mutual-import".to_owned());
            if rng.chance(1, 2) {
                // … and components inheriting from each other across the two directories
                let (si, sj) = (dirs[i].files[fi].stem.clone(), dirs[j].files[fj].stem.clone());
                dirs[i].files[fi].root.ty = sj;
                dirs[j].files[fj].root.ty = si;
                labels.push("mutual-inherit-across".to_owned());
            }
        }
    }
    if !with_files.is_empty() && rng.chance(1, 3) {
        let i = *rng.pick(&with_files);
        if dirs[i].files.len() >= 2 {
            let (s0, s1) = (dirs[i].files[0].stem.clone(), dirs[i].files[1].stem.clone());
            dirs[i].files[0].root.ty = s1;
            dirs[i].files[1].root.ty = s0;
            labels.push("mutual-inherit".to_owned());
        }
    }
    if !with_files.is_empty() && rng.chance(1, 5) {
        let i = *rng.pick(&with_files);
        let k = rng.below(dirs[i].files.len());
        dirs[i].files[k].root.ty = dirs[i].files[k].stem.clone();
        labels.push("self-inherit".to_owned());
    }
    labels.push(format!("dirs{}", dirs.iter().filter(|d| !d.files.is_empty()).count()));
    (Layout { dirs, links: vec![], flinks: vec![] }, labels)
}

/// One of the spellings of the way from directory `base` to directory `target` (both existing, canonical component
/// lists below the root).  Every named component entered on the way exists, and no spelling climbs above the root.
fn spell(rng: &mut Rng, base: &[String], target: &[String], dirs: &[Vec<String>]) -> (Vec<String>, &'static str) {
    let plain = relative(base, target);
    match rng.below(11) {
        0 => (plain, "plain"),
        1 => {
            let mut v = vec![".".to_owned()];
            v.extend(plain);
            (v, "dot-slash")
        }
        2 => {
            let mut v = plain;
            v.push(String::new());
            (v, "trailing-slash")
        }
        3 => {
            let mut v = plain;
            v.push(".".into());
            (v, "trailing-dot")
        }
        4 => {
            // `a//b`: an empty segment anywhere but in front (a leading one would make the path absolute)
            let mut v = plain;
            let at = 1 + rng.below(v.len());
            v.insert(at, String::new());
            (v, "double-slash")
        }
        5 => {
            let mut v = plain;
            let at = rng.below(v.len() + 1);
            v.insert(at, ".".into());
            (v, "inner-dot")
        }
        6 => {
            // up to the root of the tree and down again
            let mut v: Vec<String> = base.iter().map(|_| "..".to_owned()).collect();
            v.extend(target.iter().cloned());
            if v.is_empty() {
                v.push(".".into());
            }
            (v, "via-root")
        }
        7 => {
            // detour through another existing directory
            let other = rng.pick(dirs).clone();
            let mut v = relative(base, &other);
            v.extend(relative(&other, target));
            (v, "detour")
        }
        8 => {
            // down into a child of the target and up again
            let kids: Vec<&Vec<String>> = dirs.iter().filter(|d| d.len() == target.len() + 1 && d.starts_with(target)).collect();
            let mut v = plain;
            if !kids.is_empty() {
                v.push(rng.pick(&kids).last().unwrap().clone());
                v.push("..".into());
            }
            (v, "down-up")
        }
        9 => {
            let mut v = plain;
            v.push(".".into());
            v.push(String::new());
            (v, "trailing-dot-slash")
        }
        _ => {
            let mut v = vec![".".to_owned(), String::new()];
            v.extend(plain);
            v.push(String::new());
            v.push(String::new());
            (v, "slashes-everywhere")
        }
    }
}

/// Layouts about HOW directories are imported: 2–4 directories importing each other in a cycle of length 2 or 3 (plus
/// a self import), every import spelled in one of the ways of `spell` (`..`, `./`, `//`, trailing `/`, detours), the same
/// directory imported under two spellings, and — with `with_links` — through symbolic links.  Everything resolves, so
/// the documents are accepted and every component of a visible directory is usable; instances are interleaved (X, Y, X).
fn gen_spelling_layout(rng: &mut Rng, with_links: bool) -> (Layout, Vec<Source>, Vec<String>) {
    let mut labels = vec![if with_links { "symlinks" } else { "spellings" }.to_owned()];
    let pool: [&[&str]; 7] = [&["a"], &["b"], &["common"], &["a", "sub"], &["b", "ui"], &["a", "sub", "Deep"], &["x1"]];
    let n_members = 2 + rng.below(3);
    let mut members: Vec<Vec<String>> = vec![];
    while members.len() < n_members {
        let p: Vec<String> = rng.pick(&pool).iter().map(|s| s.to_string()).collect();
        if !members.contains(&p) {
            members.push(p);
        }
    }
    // parent-closed list of directories, the root first
    let mut paths: Vec<Vec<String>> = vec![vec![]];
    for m in &members {
        for k in 1..=m.len() {
            if !paths.contains(&m[..k].to_vec()) {
                paths.push(m[..k].to_vec());
            }
        }
    }
    // symbolic links: `<parent>/lnN -> member`, and sometimes `<member>/up -> root`
    let mut links: Vec<(Vec<String>, Vec<String>)> = vec![];
    if with_links {
        let n_links = 1 + rng.below(2);
        for k in 0..n_links {
            let target = rng.pick(&members).clone();
            let mut lp = rng.pick(&paths).clone();
            lp.push(format!("ln{k}"));
            links.push((lp, target));
        }
        if rng.chance(1, 3) {
            let mut lp = rng.pick(&members).clone();
            lp.push("up".into());
            links.push((lp, vec![]));
            labels.push("link-to-root".into());
        }
    }
    // components: distinct stems over the whole layout; file 0 of each member is its hub (carries the cycle)
    let mut stems: Vec<&str> = STEMS.iter().copied().filter(|s| *s != "QFrame").collect();
    rng.shuffle(&mut stems);
    let mut next_stem = 0usize;
    let mut dirs: Vec<Dir> = paths.iter().map(|p| Dir { path: p.clone(), files: vec![] }).collect();
    let cycle_len = if n_members >= 3 && rng.chance(2, 3) { 3 } else { 2 };
    labels.push(format!("cycle{cycle_len}"));
    let mut own_stems: Vec<Vec<String>> = vec![];
    for _ in &members {
        let n_files = 1 + rng.below(3);
        let v: Vec<String> = (0..n_files)
            .filter_map(|_| {
                let s = stems.get(next_stem).map(|s| s.to_string());
                next_stem += 1;
                s
            })
            .collect();
        own_stems.push(v);
    }
    for (mi, mp) in members.iter().enumerate() {
        // whom this directory imports: its successor in the cycle (members beyond the cycle import member 0), sometimes
        // a second member, sometimes itself
        let succ = if mi < cycle_len { (mi + 1) % cycle_len } else { 0 };
        let mut targets: Vec<usize> = vec![succ];
        if rng.chance(1, 3) {
            targets.push(rng.below(n_members));
        }
        if rng.chance(1, 4) {
            targets.push(mi);
            labels.push("self-import".into());
        }
        let mut hub_imports: Vec<Import> = vec![Import::Named(QT_MODULE.into())];
        let mut visible: Vec<usize> = vec![mi];
        for &t in &targets {
            let n_spellings = if rng.chance(1, 3) { 2 } else { 1 };
            if n_spellings == 2 {
                labels.push("two-spellings".into());
            }
            for _ in 0..n_spellings {
                // through a link, if there is one to that member
                let via: Vec<&(Vec<String>, Vec<String>)> = links.iter().filter(|(_, tg)| tg == &members[t]).collect();
                let (segs, how) = if !via.is_empty() && rng.chance(1, 2) {
                    let (lp, _) = *rng.pick(&via);
                    // the way to the link's parent is spelled, the link name is appended (decorations may follow)
                    let (mut v, _) = spell(rng, mp, &lp[..lp.len() - 1], &paths);
                    while matches!(v.last().map(|x| x.as_str()), Some("") | Some(".")) {
                        v.pop();
                    }
                    v.push(lp.last().unwrap().clone());
                    if rng.chance(1, 3) {
                        v.push(String::new());
                    }
                    (v, "via-link")
                } else {
                    spell(rng, mp, &members[t], &paths)
                };
                labels.push(format!("spell:{how}"));
                hub_imports.push(Import::Dir(segs));
            }
            if !visible.contains(&t) {
                visible.push(t);
            }
        }
        if let Some((lp, _)) = links.iter().find(|(lp, tg)| tg.is_empty() && lp[..lp.len() - 1] == mp[..]) {
            // `up/<first component of some member>/…`: through the link to the root and down again
            let t = rng.below(n_members);
            let mut v = vec![lp.last().unwrap().clone()];
            v.extend(members[t].iter().cloned());
            hub_imports.push(Import::Dir(v));
            labels.push("spell:via-root-link".into());
            if !visible.contains(&t) {
                visible.push(t);
            }
        }
        // types the hub may instantiate: the non-hub components of the visible directories (hubs of OTHER directories too)
        let usable: Vec<String> = visible
            .iter()
            .flat_map(|&v| own_stems[v].iter().enumerate().filter(move |(k, _)| v != mi || *k > 0).map(|(_, s)| s.clone()))
            .collect();
        let gen_prop = |rng: &mut Rng| -> Option<String> {
            if rng.chance(1, 2) { None } else { Some((*rng.pick(&PROPS[..3])).0.to_owned()) }
        };
        let d = dirs.iter_mut().find(|d| &d.path == mp).unwrap();
        for (k, stem) in own_stems[mi].iter().enumerate() {
            if k == 0 {
                let mut children: Vec<Obj> = vec![];
                let n_children = 2 + rng.below(4);
                for _ in 0..n_children {
                    let ty = if usable.is_empty() || rng.chance(1, 4) { (*rng.pick(&QT_CLASSES[..7])).to_owned() } else { rng.pick(&usable).clone() };
                    children.push(Obj { ty, prop: gen_prop(rng) });
                }
                // X, Y, X: a repeated custom type with another custom type in between
                if usable.len() >= 2 && rng.chance(1, 2) {
                    let x = rng.pick(&usable).clone();
                    let y = usable.iter().find(|u| **u != x).unwrap().clone();
                    children.push(Obj { ty: x.clone(), prop: None });
                    children.push(Obj { ty: y, prop: gen_prop(rng) });
                    children.push(Obj { ty: x, prop: gen_prop(rng) });
                    labels.push("interleaved-instances".into());
                }
                d.files.push(QmlFile {
                    stem: stem.clone(),
                    has_root: true,
                    imports: plain(hub_imports.clone()),
                    root: Obj { ty: (*rng.pick(&["QWidget", "QDialog", "QGroupBox", "QFrame"])).to_owned(), prop: gen_prop(rng) },
                    children,
                });
            } else {
                // a plain component: a Qt widget, or (a chain) the previous component of this directory
                let root_ty = if k >= 2 && rng.chance(1, 3) { own_stems[mi][k - 1].clone() } else { (*rng.pick(&QT_CLASSES[..7])).to_owned() };
                d.files.push(QmlFile {
                    stem: stem.clone(),
                    has_root: true,
                    imports: plain(vec![Import::Named(QT_MODULE.into())]),
                    root: Obj { ty: root_ty, prop: gen_prop(rng) },
                    children: vec![],
                });
            }
        }
    }
    // sources: the hubs of 1..=3 members; with links sometimes named through a link to their directory
    let mut order: Vec<usize> = (0..n_members).filter(|&i| !own_stems[i].is_empty()).collect();
    rng.shuffle(&mut order);
    let n_src = (1 + rng.below(3)).min(order.len());
    let srcs: Vec<Source> = order[..n_src]
        .iter()
        .map(|&i| {
            let via: Vec<&(Vec<String>, Vec<String>)> = links.iter().filter(|(_, tg)| tg == &members[i]).collect();
            let dir = if !via.is_empty() && rng.chance(1, 3) {
                labels.push("source-through-link".into());
                rng.pick(&via).0.clone()
            } else {
                members[i].clone()
            };
            (dir, own_stems[i][0].clone())
        })
        .collect();
    labels.push(format!("dirs{}", n_members));
    labels.push(format!("sources{n_src}"));
    labels.sort();
    labels.dedup();
    (Layout { dirs, links, flinks: vec![] }, srcs, labels)
}

/// The Qt class a type name leads to when one follows, file by file, "the type of the root object of `<name>.qml`" —
/// decided on the layout and the real file system only, and only where it is unambiguous: at every step exactly one
/// of the directories the current file sees (its own, its string imports that are existing directories) holds
/// `<name>.qml`, no component is called like a Qt class, and the file naming the Qt class imports the Qt module.
fn qt_base_of(layout: &Layout, m: &Materialised, dir: &[String], imports: &[ImportStmt], ty: &str, depth: usize) -> Option<String> {
    let imports: Vec<&Import> = live(imports).collect();
    if depth > 8 {
        return None;
    }
    let mut visible: Vec<Vec<String>> = vec![dir.to_vec()];
    for i in &imports {
        if let Import::Dir(segs) = i {
            let target = m.dir(dir).join(segs.join("/"));
            if target.is_dir() {
                let rel = m.rel_of(&target)?;
                if !visible.contains(&rel) {
                    visible.push(rel);
                }
            }
        }
    }
    let holders: Vec<(&Dir, &QmlFile)> = visible
        .iter()
        .filter_map(|v| layout.dirs.iter().find(|d| &d.path == v))
        .flat_map(|d| d.files.iter().filter(|f| f.stem == ty).map(move |f| (d, f)))
        .collect();
    if is_table_class(ty) {
        let qt_imported = imports.iter().any(|i| matches!(i, Import::Named(n) if n == QT_MODULE));
        let others_named = imports.iter().any(|i| matches!(i, Import::Named(n) if n != QT_MODULE));
        return if holders.is_empty() && qt_imported && !others_named { Some(ty.to_owned()) } else { None };
    }
    match holders.as_slice() {
        [(d, f)] if f.has_root => qt_base_of(layout, m, &d.path, &f.imports, &f.root.ty, depth + 1),
        _ => None,
    }
}

/// Layouts with a symbolic link to a QML FILE (`Alias.qml -> X.qml`, in the same or in another directory): both names
/// are QML files of their directory, so both are usable as types (finding F50: the document cache is keyed by the
/// fully resolved path, the component gets the name under which the file was read first).
fn gen_alias_layout(rng: &mut Rng) -> (Layout, Vec<Source>, Vec<String>) {
    let qt = || Import::Named(QT_MODULE.into());
    let comp = |stem: &str, root: &str| QmlFile { stem: stem.into(), has_root: true, imports: plain(vec![qt()]), root: Obj { ty: root.into(), prop: None }, children: vec![] };
    let hub = |stem: &str, imports: Vec<Import>, kids: &[&str]| QmlFile {
        stem: stem.into(),
        has_root: true,
        imports: plain(imports),
        root: Obj { ty: "QWidget".into(), prop: None },
        children: kids.iter().map(|k| Obj { ty: k.to_string(), prop: None }).collect(),
    };
    let alias = (*rng.pick(&["Aaa", "Zzz", "Link", "M"])).to_owned();
    let target = (*rng.pick(&["X", "MyBox", "B"])).to_owned();
    let a = vec!["a".to_owned()];
    let b = vec!["b".to_owned()];
    let same_dir = rng.chance(1, 2);
    let mut labels = vec!["file-alias".to_owned(), if same_dir { "alias-same-dir" } else { "alias-other-dir" }.to_owned()];
    let (dirs, flinks, srcs) = if same_dir {
        (
            vec![
                Dir { path: vec![], files: vec![] },
                Dir { path: a.clone(), files: vec![comp(&target, "QLabel"), hub("Main", vec![qt()], &[&target, &alias, "QLabel"])] },
            ],
            vec![(a.clone(), alias.clone(), a.clone(), target.clone())],
            vec![(a.clone(), "Main".to_owned())],
        )
    } else {
        let mut srcs = vec![(a.clone(), "Main".to_owned()), (b.clone(), "Main2".to_owned())];
        if rng.chance(1, 2) {
            srcs.reverse();
        }
        (
            vec![
                Dir { path: vec![], files: vec![] },
                Dir { path: a.clone(), files: vec![comp(&target, "QLabel"), hub("Main", vec![qt()], &[&target])] },
                Dir { path: b.clone(), files: vec![comp("Other", "QFrame"), hub("Main2", vec![qt()], &[&alias, "Other"])] },
            ],
            vec![(b.clone(), alias.clone(), a.clone(), target.clone())],
            srcs,
        )
    };
    labels.push(format!("sources{}", srcs.len()));
    (Layout { dirs, links: vec![], flinks }, srcs, labels)
}

/// the alias family is generated once finding F50 is listed (known or fixed) in KNOWN_FINDINGS.json
fn f50_listed() -> bool {
    fs::read_to_string(concat!(env!("CARGO_MANIFEST_DIR"), "/../KNOWN_FINDINGS.json")).map(|t| t.contains("\"F50\"")).unwrap_or(false)
}

const VERSIONS: [&str; 5] = ["6.2", "5.15", "6", "1.0", "2.15"];

/// one time in five the statement gets a version (labels `imports:versioned-named` / `imports:versioned-dir`)
fn versioned_sometimes(rng: &mut Rng, what: Import, labels: &mut Vec<String>) -> ImportStmt {
    if rng.chance(1, 5) {
        labels.push(match what {
            Import::Named(_) => "imports:versioned-named".to_owned(),
            Import::Dir(_) => "imports:versioned-dir".to_owned(),
        });
        ImportStmt { what, version: Some((*rng.pick(&VERSIONS)).to_owned()), alias: None }
    } else {
        what.into()
    }
}

// ---------------------------------------------------------------------------------------------
// the chain family: component -> component -> … -> Qt class

#[derive(Clone, Copy, Debug, PartialEq, Eq)]
enum ChainEnd {
    Widget,
    Layout,
    Action,
    Object,
    Unknown,
    Cycle,
}

/// one set of sources of a chain layout; `all_orders`: a model case for every permutation (else four orders)
struct SourceSet {
    srcs: Vec<Source>,
    all_orders: bool,
}

/// A chain of `len` (1..=4) components `c0 -> c1 -> … -> c(len-1) -> END`: the root object of `c(i)` is of type `c(i+1)`,
/// the root object of the last one is of a Qt widget class, a layout class, QAction, QObject, a name that does not
/// resolve (no such type / a Qt class in a file that does not import the Qt module), or of one of the components of the
/// chain again (self cycle, full cycle, a chain that leads into a cycle).  The components lie in one directory
/// ("within"), each in a directory of its own imported by string from the directory before ("across": a document
/// that imports the first directory sees `c0` only, every deeper link is resolved through the imports of the
/// component that names it) or a mix of both; the imports are spelled in one of the ways of `spell`.  Every component
/// file carries a binding on its root object and children (Qt widgets and other components of the chain it can see).
/// Using documents: `Main` (instances of every visible component, each with bindings of properties of the Qt class the
/// chain ends in — own and inherited ones alike —, interleaved with Qt widgets), `Root0` (`c0` as the ROOT object),
/// `Bad` (one binding of a property the end class does not have), `Clean` (does not touch the chain) and, next to every
/// component, `Use<c(i)>` (instances of `c(i)` as children); the component files themselves are sources too (`c(i)`
/// is a document whose ROOT is `c(i+1)`).
fn gen_chain_layout(rng: &mut Rng, k: usize, variant_offset: usize, qt: &[QtInfo]) -> (Layout, Vec<SourceSet>, Vec<String>) {
    let len = 1 + k % 4;
    let place_ix = (k / 4) % 3;
    let place = ["within", "across", "mixed"][place_ix];
    let end = [ChainEnd::Widget, ChainEnd::Layout, ChainEnd::Action, ChainEnd::Object, ChainEnd::Unknown, ChainEnd::Cycle][(k / 12) % 6];
    let variant = (place_ix + variant_offset + k / 72) % 3;
    let mut labels = vec!["chain".to_owned(), format!("chain:len{len}"), format!("chain:{place}")];
    let qtw = || Import::Named(QT_MODULE.into());

    // directories
    let pool: [&[&str]; 8] = [&["a"], &["b"], &["common"], &["a", "sub"], &["b", "ui"], &["a", "sub", "Deep"], &["x1"], &["lib", "widgets"]];
    let mut order: Vec<usize> = (0..pool.len()).collect();
    rng.shuffle(&mut order);
    let mut fresh = || -> Vec<String> { pool[order.pop().expect("enough directories")].iter().map(|s| s.to_string()).collect() };
    let mut comp_dir: Vec<Vec<String>> = vec![fresh()];
    for i in 1..len {
        let same = match place {
            "within" => true,
            "across" => false,
            // mixed: the first link crosses a directory boundary, the second one does not, the third one at random
            _ => match i {
                1 => false,
                2 => true,
                _ => rng.chance(1, 2),
            },
        };
        let d = if same { comp_dir[i - 1].clone() } else { fresh() };
        comp_dir.push(d);
    }
    let app_dir: Vec<String> = match place {
        "within" => {
            if rng.chance(2, 3) {
                comp_dir[0].clone()
            } else {
                labels.push("chain:app-apart".into());
                fresh()
            }
        }
        "across" => fresh(),
        _ => {
            if rng.chance(1, 2) {
                comp_dir[0].clone()
            } else {
                fresh()
            }
        }
    };
    let mut paths: Vec<Vec<String>> = vec![vec![]];
    for d in comp_dir.iter().chain(std::iter::once(&app_dir)) {
        for n in 1..=d.len() {
            if !paths.contains(&d[..n].to_vec()) {
                paths.push(d[..n].to_vec());
            }
        }
    }

    // names
    let mut names: Vec<&str> = vec!["Base", "Fancy", "Panel", "MyBox", "Inner", "Outer", "Card", "Zed", "Item2", "SettingsForm", "E", "Tile"];
    rng.shuffle(&mut names);
    let stems: Vec<String> = names[..len].iter().map(|s| s.to_string()).collect();

    // where the chain ends
    let table = |n: &str| qt.iter().find(|q| q.name == n).expect("class of the table");
    let mut no_qt_import_in_last = false;
    let mut cycle_target: Option<usize> = None;
    let (end_ty, end_label): (String, String) = match end {
        ChainEnd::Widget => ((*rng.pick(&QT_CLASSES[..7])).to_owned(), "widget".into()),
        ChainEnd::Layout => ((*rng.pick(&QT_EXTRA[..2])).to_owned(), "layout".into()),
        ChainEnd::Action => ("QAction".to_owned(), "action".into()),
        ChainEnd::Object => ("QObject".to_owned(), "object".into()),
        ChainEnd::Unknown => {
            if variant == 1 {
                // a Qt class named in a file that does not import the Qt module
                no_qt_import_in_last = true;
                labels.push("chain:unknown:qt-module-not-imported".into());
                ((*rng.pick(&QT_CLASSES[..7])).to_owned(), "unknown".into())
            } else {
                ("Missing".to_owned(), "unknown".into())
            }
        }
        ChainEnd::Cycle => {
            let j = match variant {
                0 => 0,
                1 => len - 1,
                _ => {
                    if len >= 2 {
                        1 + rng.below(len - 1)
                    } else {
                        0
                    }
                }
            };
            cycle_target = Some(j);
            labels.push(format!("chain:cyclelen{}", len - j));
            if j > 0 {
                labels.push("chain:into-cycle".into());
            }
            (stems[j].clone(), "cycle".into())
        }
    };
    labels.push(format!("chain:end:{end_label}"));
    let good_props: Vec<String> = match end {
        ChainEnd::Widget | ChainEnd::Layout | ChainEnd::Action => table(&end_ty).props.clone(),
        _ => vec![],
    };
    let all_props: Vec<&str> = PROPS.iter().chain(EXTRA_PROPS.iter()).map(|(n, _)| *n).collect();
    let bad_props: Vec<&str> = all_props.iter().copied().filter(|p| !good_props.iter().any(|g| g == p)).collect();
    let good = |rng: &mut Rng| -> Option<String> {
        if good_props.is_empty() {
            None
        } else {
            Some(rng.pick(&good_props).clone())
        }
    };
    let qt_child = |rng: &mut Rng| -> Obj {
        let ty = *rng.pick(&["QLabel", "QPushButton", "QFrame", "QLineEdit", "QGroupBox"]);
        let prop = match rng.below(3) {
            0 => None,
            1 => Some((*rng.pick(&PROPS[..3])).0.to_owned()),
            _ => Some(rng.pick(&table(ty).props).clone()),
        };
        Obj { ty: ty.to_owned(), prop }
    };

    let mut dirs: Vec<Dir> = paths.iter().map(|p| Dir { path: p.clone(), files: vec![] }).collect();
    let push = |dirs: &mut Vec<Dir>, d: &[String], f: QmlFile| dirs.iter_mut().find(|x| x.path == d).unwrap().files.push(f);

    // the components
    for i in 0..len {
        let (next_ty, next_dir): (String, Option<Vec<String>>) = if i + 1 < len {
            (stems[i + 1].clone(), Some(comp_dir[i + 1].clone()))
        } else {
            (end_ty.clone(), cycle_target.map(|j| comp_dir[j].clone()))
        };
        let last_without_qt = no_qt_import_in_last && i == len - 1;
        let mut imports = if last_without_qt { vec![] } else { vec![qtw()] };
        let mut sees: Vec<Vec<String>> = vec![comp_dir[i].clone()];
        if let Some(nd) = &next_dir {
            if *nd != comp_dir[i] {
                let (segs, how) = spell(rng, &comp_dir[i], nd, &paths);
                labels.push(format!("spell:{how}"));
                // the Qt module first or last: the order of the imports must not matter here
                if rng.chance(1, 4) {
                    imports.insert(0, Import::Dir(segs));
                } else {
                    imports.push(Import::Dir(segs));
                }
                sees.push(nd.clone());
            }
        }
        let others: Vec<usize> = (0..len).filter(|&j| j != i && sees.contains(&comp_dir[j])).collect();
        let n_children = 1 + rng.below(3);
        let mut children = vec![];
        for _ in 0..n_children {
            if !others.is_empty() && rng.chance(1, 2) {
                children.push(Obj { ty: stems[*rng.pick(&others)].clone(), prop: good(rng) });
            } else if !last_without_qt {
                children.push(qt_child(rng));
            }
        }
        let root = Obj { ty: next_ty, prop: if rng.chance(2, 3) { good(rng) } else { None } };
        // every link of the chain may use another style of import: a version on the statement changes nothing
        let imports: Vec<ImportStmt> = imports.into_iter().map(|i| versioned_sometimes(rng, i, &mut labels)).collect();
        push(&mut dirs, &comp_dir[i], QmlFile { stem: stems[i].clone(), has_root: true, imports, root, children });
    }

    // the using documents
    let mut app_imports = vec![qtw()];
    if app_dir != comp_dir[0] {
        let (segs, how) = spell(rng, &app_dir, &comp_dir[0], &paths);
        labels.push(format!("spell:{how}"));
        app_imports.push(Import::Dir(segs));
    }
    let app_imports: Vec<ImportStmt> = app_imports.into_iter().map(|i| versioned_sometimes(rng, i, &mut labels)).collect();
    let visible: Vec<usize> = (0..len).filter(|&j| comp_dir[j] == app_dir || comp_dir[j] == comp_dir[0]).collect();
    let mut main_children = vec![];
    for &j in &visible {
        main_children.push(Obj { ty: stems[j].clone(), prop: good(rng) });
        if rng.chance(1, 2) {
            main_children.push(qt_child(rng));
        }
        main_children.push(Obj { ty: stems[j].clone(), prop: good(rng) });
    }
    // X, Y, X: the first component once more after all the others
    main_children.push(Obj { ty: stems[visible[0]].clone(), prop: None });
    for p in &good_props {
        labels.push(format!("chain:prop:{p}"));
    }
    push(
        &mut dirs,
        &app_dir,
        QmlFile {
            stem: "Main".into(),
            has_root: true,
            imports: app_imports.clone(),
            root: Obj { ty: (*rng.pick(&["QDialog", "QWidget", "QGroupBox", "QFrame"])).to_owned(), prop: if rng.chance(1, 2) { Some("windowTitle".into()) } else { None } },
            children: main_children,
        },
    );
    push(
        &mut dirs,
        &app_dir,
        QmlFile {
            stem: "Root0".into(),
            has_root: true,
            imports: app_imports.clone(),
            root: Obj { ty: stems[0].clone(), prop: good(rng) },
            children: vec![Obj { ty: "QLabel".into(), prop: Some("text".into()) }, Obj { ty: stems[0].clone(), prop: good(rng) }, qt_child(rng)],
        },
    );
    let bad_prop = (*rng.pick(&bad_props)).to_owned();
    labels.push(format!("chain:bad-prop:{bad_prop}"));
    push(
        &mut dirs,
        &app_dir,
        QmlFile {
            stem: "Bad".into(),
            has_root: true,
            imports: app_imports.clone(),
            root: Obj { ty: "QWidget".into(), prop: None },
            children: vec![
                Obj { ty: stems[*rng.pick(&visible)].clone(), prop: good(rng) },
                Obj { ty: stems[*rng.pick(&visible)].clone(), prop: Some(bad_prop) },
                Obj { ty: "QLabel".into(), prop: None },
            ],
        },
    );
    push(
        &mut dirs,
        &app_dir,
        QmlFile {
            stem: "Clean".into(),
            has_root: true,
            imports: plain(vec![qtw()]),
            root: Obj { ty: "QDialog".into(), prop: Some("windowTitle".into()) },
            children: vec![Obj { ty: "QLabel".into(), prop: Some("text".into()) }, Obj { ty: "QPushButton".into(), prop: Some("flat".into()) }],
        },
    );
    let mut users: Vec<Source> = vec![];
    for i in 0..len {
        let stem = format!("Use{}", stems[i]);
        push(
            &mut dirs,
            &comp_dir[i],
            QmlFile {
                stem: stem.clone(),
                has_root: true,
                imports: plain(vec![qtw()]),
                root: Obj { ty: "QWidget".into(), prop: None },
                children: vec![Obj { ty: stems[i].clone(), prop: good(rng) }, Obj { ty: stems[i].clone(), prop: good(rng) }, Obj { ty: "QPushButton".into(), prop: Some("text".into()) }],
            },
        );
        users.push((comp_dir[i].clone(), stem));
    }

    // sources: using documents and component files together; every file is a source of exactly one set
    let app = |s: &str| -> Source { (app_dir.clone(), s.to_owned()) };
    let comp = |i: usize| -> Source { (comp_dir[i].clone(), stems[i].clone()) };
    let mut first = vec![app("Main"), app("Bad"), comp(0)];
    first.push(if len > 1 { comp(len - 1) } else { app("Root0") });
    let mut rest: Vec<Source> = vec![app("Clean")];
    if len > 1 {
        rest.push(app("Root0"));
    }
    rest.extend((1..len.saturating_sub(1)).map(comp));
    rest.extend(users);
    rng.shuffle(&mut first);
    rng.shuffle(&mut rest);
    let mut sets = vec![SourceSet { srcs: first, all_orders: true }];
    for chunk in rest.chunks(4) {
        sets.push(SourceSet { srcs: chunk.to_vec(), all_orders: false });
    }
    labels.sort();
    labels.dedup();
    (Layout { dirs, links: vec![], flinks: vec![] }, sets, labels)
}

// ---------------------------------------------------------------------------------------------
// the import-forms family: every way an import list can be written

/// how a file imports the Qt module
#[derive(Clone, Copy, Debug, PartialEq, Eq)]
enum QtStyle {
    Plain,
    Versioned,
    Twice,
    VersionedAndPlain,
    /// after the directory imports (an unused directory import is put in front if there is no other)
    Last,
    AliasedOnly,
    AliasedAndPlain,
    VersionAndAliasOnly,
}

/// how a file imports the directory of the type it needs
#[derive(Clone, Copy, Debug, PartialEq, Eq)]
enum DirStyle {
    Plain,
    Versioned,
    TwoSpellings,
    OwnDirExplicitAndVersioned,
    UnusedInBetween,
    AliasedOnly,
    AliasedAndPlain,
}

const QT_STYLES: [QtStyle; 8] = [
    QtStyle::Plain,
    QtStyle::Versioned,
    QtStyle::Twice,
    QtStyle::VersionedAndPlain,
    QtStyle::Last,
    QtStyle::AliasedOnly,
    QtStyle::AliasedAndPlain,
    QtStyle::VersionAndAliasOnly,
];
const DIR_STYLES: [DirStyle; 7] = [
    DirStyle::Plain,
    DirStyle::Versioned,
    DirStyle::TwoSpellings,
    DirStyle::OwnDirExplicitAndVersioned,
    DirStyle::UnusedInBetween,
    DirStyle::AliasedOnly,
    DirStyle::AliasedAndPlain,
];

fn qt_stmts(style: QtStyle, rng: &mut Rng, labels: &mut Vec<String>) -> Vec<ImportStmt> {
    let qt = || Import::Named(QT_MODULE.into());
    let v = |rng: &mut Rng| Some((*rng.pick(&VERSIONS)).to_owned());
    let alias = |rng: &mut Rng| Some((*rng.pick(&["W", "QtW", "Widgets"])).to_owned());
    let mut l = |s: &str| labels.push(format!("imports:{s}"));
    match style {
        QtStyle::Plain | QtStyle::Last => vec![qt().into()],
        QtStyle::Versioned => {
            l("versioned-named");
            l("only-route-versioned");
            vec![ImportStmt { what: qt(), version: v(rng), alias: None }]
        }
        QtStyle::Twice => {
            l("duplicate");
            vec![qt().into(), qt().into()]
        }
        QtStyle::VersionedAndPlain => {
            l("duplicate");
            l("versioned-named");
            let mut x = vec![ImportStmt { what: qt(), version: v(rng), alias: None }, qt().into()];
            if rng.chance(1, 2) {
                x.reverse();
            }
            x
        }
        QtStyle::AliasedOnly => {
            l("aliased");
            l("aliased-named");
            l("only-route-aliased");
            vec![ImportStmt { what: qt(), version: None, alias: alias(rng) }]
        }
        QtStyle::AliasedAndPlain => {
            l("aliased");
            l("aliased-named");
            let mut x = vec![ImportStmt { what: qt(), version: None, alias: alias(rng) }, qt().into()];
            if rng.chance(1, 2) {
                x.reverse();
            }
            x
        }
        QtStyle::VersionAndAliasOnly => {
            l("aliased");
            l("aliased-named");
            l("version-and-alias");
            l("only-route-aliased");
            vec![ImportStmt { what: qt(), version: v(rng), alias: alias(rng) }]
        }
    }
}

fn dir_stmts(style: DirStyle, rng: &mut Rng, base: &[String], target: &[String], unused: &[String], paths: &[Vec<String>], labels: &mut Vec<String>) -> Vec<ImportStmt> {
    let v = |rng: &mut Rng| Some((*rng.pick(&VERSIONS)).to_owned());
    let alias = |rng: &mut Rng| Some((*rng.pick(&["B", "Lib", "Ui"])).to_owned());
    let way = |rng: &mut Rng| Import::Dir(spell(rng, base, target, paths).0);
    let mut l = |s: &str| labels.push(format!("imports:{s}"));
    match style {
        DirStyle::Plain => vec![way(rng).into()],
        DirStyle::Versioned => {
            l("versioned-dir");
            l("only-route-versioned");
            vec![ImportStmt { what: way(rng), version: v(rng), alias: None }]
        }
        DirStyle::TwoSpellings => {
            l("duplicate");
            vec![way(rng).into(), way(rng).into()]
        }
        DirStyle::OwnDirExplicitAndVersioned => {
            l("own-dir-explicit");
            l("versioned-dir");
            l("only-route-versioned");
            vec![Import::Dir(vec![".".into()]).into(), ImportStmt { what: way(rng), version: v(rng), alias: None }]
        }
        DirStyle::UnusedInBetween => {
            l("unused");
            vec![Import::Dir(relative(base, unused)).into(), way(rng).into(), Import::Dir(relative(base, unused)).into()]
        }
        DirStyle::AliasedOnly => {
            l("aliased");
            l("aliased-dir");
            l("only-route-aliased");
            vec![ImportStmt { what: way(rng), version: if rng.chance(1, 3) { v(rng) } else { None }, alias: alias(rng) }]
        }
        DirStyle::AliasedAndPlain => {
            l("aliased");
            l("aliased-dir");
            let mut x = vec![ImportStmt { what: way(rng), version: None, alias: alias(rng) }, way(rng).into()];
            if rng.chance(1, 2) {
                x.reverse();
            }
            x
        }
    }
}

/// A chain `X0 -> … -> X(len-1) -> Qt widget class` (len 1..=3), every component in a directory of its own, used by
/// `app/Main`.  Every LINK — Main's import of X0's directory, X(i)'s import of X(i+1)'s directory, the last component's
/// import of the Qt module, and Main's own import of the Qt module — is written in one of the styles above: with a
/// version, twice, under two spellings, with the own directory named explicitly, with unused imports around it, the Qt
/// module last, under an alias (alone: the route is cut; next to a plain statement: the route stands, but the FILE, as a
/// source, is rejected for the alias).  One link (`k` selects style and position) carries the style under test, the
/// others a random style that keeps the route (one layout in eight: all random).  A directory `g` is imported under an
/// alias only: it must not be discovered.  Sources: Main, a document that does not touch the chain, the component files
/// and a plain user next to every component.
fn gen_import_layout(rng: &mut Rng, k: usize, qt: &[QtInfo]) -> (Layout, Vec<SourceSet>, Vec<String>) {
    let len = 1 + (k / 15 + k) % 3;
    let focus = k % 15;
    let mut labels = vec!["imports".to_owned(), format!("imports:len{len}")];
    let all_random = rng.chance(1, 8);
    if all_random {
        labels.push("imports:all-random".into());
    }
    let d = |s: &[&str]| -> Vec<String> { s.iter().map(|x| x.to_string()).collect() };
    let app = d(&["app"]);
    let mut lib_pool: Vec<Vec<String>> = vec![d(&["b"]), d(&["c"]), d(&["lib", "widgets"]), d(&["app", "sub"]), d(&["x1"])];
    rng.shuffle(&mut lib_pool);
    let comp_dir: Vec<Vec<String>> = lib_pool[..len].to_vec();
    let unused = d(&["u"]);
    let alias_only = d(&["g"]);
    let mut paths: Vec<Vec<String>> = vec![vec![]];
    for p in comp_dir.iter().chain([&app, &unused, &alias_only]) {
        for n in 1..=p.len() {
            if !paths.contains(&p[..n].to_vec()) {
                paths.push(p[..n].to_vec());
            }
        }
    }
    let mut names: Vec<&str> = vec!["Panel", "Fancy", "Base", "MyBox", "Card", "Tile", "Zed"];
    rng.shuffle(&mut names);
    let stems: Vec<String> = names[..len].iter().map(|s| s.to_string()).collect();
    let end_ty = (*rng.pick(&QT_CLASSES[..7])).to_owned();
    let good_props = qt.iter().find(|q| q.name == end_ty).unwrap().props.clone();
    let good = |rng: &mut Rng| -> Option<String> { if rng.chance(1, 4) { None } else { Some(rng.pick(&good_props).clone()) } };

    // the links: 0 = Main -> X0's directory, i = X(i-1) -> X(i)'s directory (i < len); Qt links: 0 = Main, i + 1 = X(i)
    let safe_qt = [QtStyle::Plain, QtStyle::Versioned, QtStyle::Twice, QtStyle::VersionedAndPlain, QtStyle::Last];
    let safe_dir = [DirStyle::Plain, DirStyle::Versioned, DirStyle::TwoSpellings, DirStyle::OwnDirExplicitAndVersioned, DirStyle::UnusedInBetween];
    let mut dir_style: Vec<DirStyle> = (0..len).map(|_| if all_random { *rng.pick(&DIR_STYLES) } else { *rng.pick(&safe_dir) }).collect();
    let mut qt_style: Vec<QtStyle> = (0..=len).map(|_| if all_random { *rng.pick(&QT_STYLES) } else { *rng.pick(&safe_qt) }).collect();
    if focus < QT_STYLES.len() {
        // on the last component (the only route to the Qt class) or — every third time — on the source itself
        let at = if rng.chance(1, 3) { 0 } else { len };
        qt_style[at] = QT_STYLES[focus];
        labels.push(format!("imports:focus:{:?}", QT_STYLES[focus]));
        labels.push(if at == 0 { "imports:in-source" } else { "imports:in-component" }.to_owned());
    } else {
        let at = rng.below(len);
        dir_style[at] = DIR_STYLES[focus - QT_STYLES.len()];
        labels.push(format!("imports:focus:{:?}", DIR_STYLES[focus - QT_STYLES.len()]));
        labels.push(if at == 0 { "imports:in-source" } else { "imports:in-component" }.to_owned());
    }
    if len >= 2 && dir_style.windows(2).any(|w| w[0] != w[1]) {
        labels.push("imports:chain-mixed-styles".into());
    }
    let assemble = |rng: &mut Rng, base: &[String], qs: QtStyle, ds: Option<(DirStyle, &[String])>, labels: &mut Vec<String>| -> Vec<ImportStmt> {
        let q = qt_stmts(qs, rng, labels);
        let mut dd = match ds {
            Some((s, target)) => dir_stmts(s, rng, base, target, &unused, &paths, labels),
            None => vec![],
        };
        if qs == QtStyle::Last {
            labels.push("imports:qt-last".into());
            if dd.is_empty() {
                labels.push("imports:unused".into());
                dd.push(Import::Dir(relative(base, &unused)).into());
            }
            dd.extend(q);
            dd
        } else if rng.chance(1, 3) && !dd.is_empty() {
            // the Qt module between the directory imports
            let at = rng.below(dd.len() + 1);
            for (n, s) in q.into_iter().enumerate() {
                dd.insert(at + n, s);
            }
            dd
        } else {
            let mut v = q;
            v.extend(dd);
            v
        }
    };
    let qt_child = |rng: &mut Rng| -> Obj { Obj { ty: (*rng.pick(&["QLabel", "QPushButton", "QFrame"])).to_owned(), prop: if rng.chance(1, 2) { Some((*rng.pick(&PROPS[..3])).0.to_owned()) } else { None } } };

    let mut dirs: Vec<Dir> = paths.iter().map(|p| Dir { path: p.clone(), files: vec![] }).collect();
    let push = |dirs: &mut Vec<Dir>, d: &[String], f: QmlFile| dirs.iter_mut().find(|x| x.path == d).unwrap().files.push(f);
    let plain_qt = || plain(vec![Import::Named(QT_MODULE.into())]);
    for i in 0..len {
        let (next_ty, next): (String, Option<(DirStyle, &[String])>) =
            if i + 1 < len { (stems[i + 1].clone(), Some((dir_style[i + 1], comp_dir[i + 1].as_slice()))) } else { (end_ty.clone(), None) };
        let imports = assemble(rng, &comp_dir[i], qt_style[i + 1], next, &mut labels);
        let mut children = vec![];
        for _ in 0..rng.below(3) {
            children.push(qt_child(rng));
        }
        push(&mut dirs, &comp_dir[i], QmlFile { stem: stems[i].clone(), has_root: true, imports, root: Obj { ty: next_ty, prop: good(rng) }, children });
        push(
            &mut dirs,
            &comp_dir[i],
            QmlFile {
                stem: format!("Use{}", stems[i]),
                has_root: true,
                imports: plain_qt(),
                root: Obj { ty: "QWidget".into(), prop: None },
                children: vec![Obj { ty: stems[i].clone(), prop: good(rng) }, qt_child(rng), Obj { ty: stems[i].clone(), prop: good(rng) }],
            },
        );
    }
    let main_imports = assemble(rng, &app, qt_style[0], Some((dir_style[0], comp_dir[0].as_slice())), &mut labels);
    push(
        &mut dirs,
        &app,
        QmlFile {
            stem: "Main".into(),
            has_root: true,
            imports: main_imports,
            root: Obj { ty: (*rng.pick(&["QDialog", "QWidget", "QGroupBox"])).to_owned(), prop: Some("windowTitle".into()) },
            children: vec![Obj { ty: stems[0].clone(), prop: good(rng) }, qt_child(rng), Obj { ty: stems[0].clone(), prop: good(rng) }],
        },
    );
    // a document that touches nothing of the above but imports `g` under an alias only (so it is rejected, and `g` is
    // never discovered), and one that is simply fine
    push(
        &mut dirs,
        &app,
        QmlFile {
            stem: "ViaAlias".into(),
            has_root: true,
            imports: vec![Import::Named(QT_MODULE.into()).into(), ImportStmt { what: Import::Dir(relative(&app, &alias_only)), version: None, alias: Some("G".into()) }],
            root: Obj { ty: "QDialog".into(), prop: None },
            children: vec![Obj { ty: "QLabel".into(), prop: Some("text".into()) }],
        },
    );
    push(
        &mut dirs,
        &app,
        QmlFile {
            stem: "Clean".into(),
            has_root: true,
            imports: plain_qt(),
            root: Obj { ty: "QDialog".into(), prop: Some("windowTitle".into()) },
            children: vec![Obj { ty: "QLabel".into(), prop: Some("text".into()) }],
        },
    );
    push(&mut dirs, &unused, QmlFile { stem: "Unused".into(), has_root: true, imports: plain_qt(), root: Obj { ty: "QFrame".into(), prop: None }, children: vec![] });
    push(&mut dirs, &alias_only, QmlFile { stem: "InG".into(), has_root: true, imports: plain_qt(), root: Obj { ty: "QFrame".into(), prop: None }, children: vec![] });

    let appf = |s: &str| -> Source { (app.clone(), s.to_owned()) };
    let mut first: Vec<Source> = vec![appf("Main"), appf("Clean"), (comp_dir[0].clone(), stems[0].clone())];
    first.push(if len > 1 { (comp_dir[len - 1].clone(), stems[len - 1].clone()) } else { appf("ViaAlias") });
    let mut rest: Vec<Source> = vec![];
    if len > 1 {
        rest.push(appf("ViaAlias"));
    }
    rest.extend((1..len.saturating_sub(1)).map(|i| (comp_dir[i].clone(), stems[i].clone())));
    rest.extend((0..len).map(|i| (comp_dir[i].clone(), format!("Use{}", stems[i]))));
    rng.shuffle(&mut first);
    rng.shuffle(&mut rest);
    let mut sets = vec![SourceSet { srcs: first, all_orders: false }];
    for chunk in rest.chunks(4) {
        sets.push(SourceSet { srcs: chunk.to_vec(), all_orders: false });
    }
    labels.sort();
    labels.dedup();
    (Layout { dirs, links: vec![], flinks: vec![] }, sets, labels)
}

fn permutations<T: Clone>(xs: &[T]) -> Vec<Vec<T>> {
    if xs.len() <= 1 {
        return vec![xs.to_vec()];
    }
    let mut out = vec![];
    for i in 0..xs.len() {
        let mut rest = xs.to_vec();
        let x = rest.remove(i);
        for mut p in permutations(&rest) {
            p.insert(0, x.clone());
            out.push(p);
        }
    }
    out
}

fn sources_sexp(srcs: &[Source]) -> Sexp {
    node("sources", srcs.iter().map(|(p, s)| list(vec![path_sexp(p), st(s.clone())])).collect())
}

fn parse_sources(s: &Sexp) -> Option<Vec<Source>> {
    let (_, a) = s.as_node()?;
    a.iter()
        .map(|x| {
            let l = x.as_list()?;
            let p = l[0].as_list()?.iter().map(|s| s.as_str().map(str::to_owned)).collect::<Option<Vec<_>>>()?;
            Some((p, l[1].as_str()?.to_owned()))
        })
        .collect()
}

// ---------------------------------------------------------------------------------------------
// running the real code

/// Temp directory holding one materialised layout; removed on drop (also when the code under test panics).
struct Materialised {
    top: Utf8PathBuf,
    /// canonical path of the layout's root directory
    root: Utf8PathBuf,
}

impl Materialised {
    fn new(layout: &Layout) -> Self {
        let n = COUNTER.fetch_add(1, Ordering::Relaxed);
        let top = std::env::temp_dir().join(format!("qv-c18-{}-{}", std::process::id(), n));
        let _ = fs::remove_dir_all(&top);
        // two levels of our own above the layout's root, so nothing of the machine is ever scanned
        let root = top.join("o").join("r");
        fs::create_dir_all(&root).unwrap();
        let top = Utf8PathBuf::from_path_buf(top.canonicalize().unwrap()).unwrap();
        let root = Utf8PathBuf::from_path_buf(root.canonicalize().unwrap()).unwrap();
        assert!(!root.starts_with("/repo") && !root.starts_with("/verif"));
        for d in &layout.dirs {
            let dp = d.path.iter().fold(root.clone(), |p, s| p.join(s));
            fs::create_dir_all(&dp).unwrap();
            for f in &d.files {
                fs::write(dp.join(format!("{}.qml", f.stem)), qml_text(f)).unwrap();
            }
        }
        for (l, t) in &layout.links {
            let lp = l.iter().fold(root.clone(), |p, s| p.join(s));
            let tp = t.iter().fold(root.clone(), |p, s| p.join(s));
            std::os::unix::fs::symlink(&tp, &lp).unwrap();
        }
        for (ld, ls, td, ts) in &layout.flinks {
            let lp = ld.iter().fold(root.clone(), |p, s| p.join(s)).join(format!("{ls}.qml"));
            let tp = td.iter().fold(root.clone(), |p, s| p.join(s)).join(format!("{ts}.qml"));
            std::os::unix::fs::symlink(&tp, &lp).unwrap();
        }
        Materialised { top, root }
    }

    /// components of the canonical form of `abs` below the layout's root (`None`: does not exist / lies outside)
    fn rel_of(&self, abs: &camino::Utf8Path) -> Option<Vec<String>> {
        let c = abs.canonicalize_utf8().ok()?;
        Some(c.strip_prefix(&self.root).ok()?.components().map(|c| c.as_str().to_owned()).collect())
    }

    fn dir(&self, p: &[String]) -> Utf8PathBuf {
        p.iter().fold(self.root.clone(), |a, s| a.join(s))
    }
}

impl Drop for Materialised {
    fn drop(&mut self) {
        let _ = fs::remove_dir_all(&self.top);
    }
}

#[derive(Clone, Debug, PartialEq, Eq)]
struct SrcOut {
    name: String,
    body: Vec<Sexp>,
    accepted: bool,
    built: bool,
    customs: Vec<(String, String, String)>,
    /// diagnostic messages (`None`: not loaded / syntax error)
    diags: Option<Vec<String>>,
    /// widgets of the .ui (root first): class and the property names set on it
    widgets: Vec<(String, Vec<String>)>,
}

#[derive(Clone, Debug, PartialEq, Eq)]
struct RunOut {
    dirs: Vec<String>,
    modules: Vec<Sexp>,
    outputs: Vec<SrcOut>,
}

fn rel_name(p: &[String]) -> String {
    p.join("/")
}

impl C18 {
    /// One in-process run per (layout, ORDERED source list) and process: the requests on one layout (model case, the
    /// oracles, every order the permutation oracle compares) share it.
    fn run_real(&self, layout: &Layout, srcs: &[Source]) -> Result<RunOut, Sexp> {
        let key = format!("{} {}", layout.to_sexp().render(), sources_sexp(srcs).render());
        let cell = {
            let mut m = self.real_runs.lock().unwrap();
            m.entry(key).or_insert_with(|| Arc::new(OnceLock::new())).clone()
        };
        cell.get_or_init(|| self.run_real_uncached(layout, srcs)).clone()
    }

    fn run_real_uncached(&self, layout: &Layout, srcs: &[Source]) -> Result<RunOut, Sexp> {
        let m = Materialised::new(layout);
        let root_str = m.root.as_str().to_owned();
        let strip = |s: &str| s.replace(&root_str, "");
        let mut tm = self.fresh_type_map();
        let mut cache = UiDocumentsCache::new();
        let mut pd = ProjectDiagnostics::new();
        let src_paths: Vec<Utf8PathBuf> = srcs.iter().map(|(p, s)| m.dir(p).join(format!("{s}.qml"))).collect();
        if let Err(e) = qmldir::populate_directories(&mut tm, &mut cache, &src_paths, &mut pd) {
            return Err(node("populate-error", vec![st(strip(&e.to_string()))]));
        }
        // nothing above the layout's root may have been touched
        for up in [m.root.parent().unwrap(), m.top.as_path(), m.top.parent().unwrap()] {
            if tm.contains_module(ModuleId::Directory(up)) {
                return Err(node("escaped-root", vec![]));
            }
        }
        let mut dirs = vec![];
        let mut modules = vec![];
        let mut sorted_dirs: Vec<&Dir> = layout.dirs.iter().collect();
        sorted_dirs.sort_by_key(|d| rel_name(&d.path));
        for d in sorted_dirs {
            let abs = m.dir(&d.path);
            let Some(ns) = tm.get_module(ModuleId::Directory(&abs)) else { continue };
            dirs.push(rel_name(&d.path));
            let stems: BTreeSet<&str> = d.files.iter().map(|f| f.stem.as_str()).collect();
            let mut v = vec![st(rel_name(&d.path))];
            for stem in stems {
                match ns.get_type(stem) {
                    None => {}
                    Some(Ok(NamedType::QmlComponent(c))) => {
                        let sup = match c.as_class().public_super_classes().next() {
                            Some(Ok(s)) => node("ok", vec![st(s.qualified_cxx_name().into_owned())]),
                            Some(Err(e)) => node("err", vec![st(strip(&e.to_string()))]),
                            None => node("no-super", vec![]),
                        };
                        v.push(list(vec![st(stem), sup]));
                    }
                    Some(other) => v.push(list(vec![st(stem), node("unexpected", vec![st(format!("{other:?}"))])])),
                }
            }
            modules.push(list(v));
        }
        let mut outputs = vec![];
        for ((p, s), path) in srcs.iter().zip(&src_paths) {
            let name = if p.is_empty() { format!("{s}.qml") } else { format!("{}/{s}.qml", rel_name(p)) };
            // like generate_ui_file: the document populate_directories has read
            let Some(doc) = cache.get(path) else {
                outputs.push(SrcOut { name, body: vec![atom("not-loaded")], accepted: false, built: false, customs: vec![], diags: None, widgets: vec![] });
                continue;
            };
            let t = env::translate_doc(&tm, doc, Mode::Generate);
            if t.syntax_errors > 0 {
                outputs.push(SrcOut { name, body: vec![atom("syntax-error")], accepted: false, built: false, customs: vec![], diags: None, widgets: vec![] });
                continue;
            }
            let mut msgs: Vec<String> = t.diags.iter().map(|d| strip(&d.message)).collect();
            msgs.sort();
            let mut widgets = vec![];
            let mut widget_props: Vec<(String, Vec<String>)> = vec![];
            let mut customs = vec![];
            if let Some(ui) = &t.ui {
                let ui = xml::strip_indent(&xml::parse(ui).expect("well-formed ui"));
                // an `<action>` carries no class: uic makes it a QAction whatever the component was called
                let class_of = |e: &xml::Element| -> String {
                    if e.name == "action" { "QAction".to_owned() } else { e.attr("class").unwrap_or("?").to_owned() }
                };
                let widget = |e: &xml::Element| -> Sexp {
                    let mut v = vec![st(class_of(e))];
                    v.extend(e.children_named("property").map(|p| st(p.attr("name").unwrap_or("?"))));
                    list(v)
                };
                if let Some(rw) = ui.child("widget") {
                    // the root widget, then its objects in document order: widgets, layouts and actions
                    let kids: Vec<&xml::Element> = rw.elems().filter(|e| matches!(e.name.as_str(), "widget" | "layout" | "action")).collect();
                    widgets.push(widget(rw));
                    widgets.extend(kids.iter().map(|e| widget(e)));
                    for e in std::iter::once(rw).chain(kids.iter().copied()) {
                        widget_props.push((
                            class_of(e),
                            e.children_named("property").map(|p| p.attr("name").unwrap_or("?").to_owned()).collect(),
                        ));
                    }
                }
                if let Some(cw) = ui.child("customwidgets") {
                    for c in cw.children_named("customwidget") {
                        let g = |n: &str| c.child(n).map(|e| e.text()).unwrap_or_default();
                        customs.push((g("class"), g("extends"), g("header")));
                    }
                }
            }
            let diag_msgs = msgs.clone();
            let body = vec![
                node("accepted", vec![boolean(t.accepted())]),
                node("built", vec![boolean(t.built)]),
                node("diags", msgs.into_iter().map(st).collect()),
                node("widgets", widgets),
                node(
                    "customwidgets",
                    customs.iter().map(|(a, b, c)| list(vec![st(a.clone()), st(b.clone()), st(c.clone())])).collect(),
                ),
            ];
            outputs.push(SrcOut { name, body, accepted: t.accepted(), built: t.built, customs, diags: Some(diag_msgs), widgets: widget_props });
        }
        Ok(RunOut { dirs, modules, outputs })
    }

    /// Independent reachability on the REAL file system (oracle for the discovered directory set): directories are
    /// identified by their canonical path, so every spelling of a directory (and every symlink to it) is that directory.
    fn reach_real(&self, layout: &Layout, srcs: &[Source]) -> Vec<String> {
        let m = Materialised::new(layout);
        let outside = vec!["<outside>".to_owned()];
        let mut seen: BTreeSet<Vec<String>> = BTreeSet::new();
        let mut todo: Vec<Vec<String>> = srcs.iter().map(|(p, _)| m.rel_of(&m.dir(p)).unwrap_or(outside.clone())).collect();
        while let Some(d) = todo.pop() {
            if !seen.insert(d.clone()) {
                continue;
            }
            let Some(ld) = layout.dirs.iter().find(|x| x.path == d) else { continue };
            for f in ld.files.iter().filter(|f| f.has_root) {
                // an aliased statement is skipped by discovery: its directory is not reached through it
                for i in live(&f.imports) {
                    if let Import::Dir(segs) = i {
                        let target = m.dir(&d).join(segs.join("/"));
                        if target.is_dir() {
                            todo.push(m.rel_of(&target).unwrap_or(outside.clone()));
                        }
                    }
                }
            }
        }
        let mut v: Vec<String> = seen.iter().map(|d| rel_name(d)).collect();
        v.sort();
        v
    }

    // -----------------------------------------------------------------------------------------
    // preflight: the real binary, guarded

    fn preflight(&self, layout: &Layout, srcs: &[Source]) -> Result<Preflight, String> {
        let mut sorted: Vec<Source> = srcs.to_vec();
        sorted.sort();
        sorted.dedup();
        let key = format!("{} {}", layout.to_sexp().render(), sources_sexp(&sorted).render());
        let cell = {
            let mut m = self.preflights.lock().unwrap();
            m.entry(key).or_insert_with(|| Arc::new(OnceLock::new())).clone()
        };
        cell.get_or_init(|| {
            let (pre, out) = preflight_run(layout, &sorted);
            if let Some(out) = out {
                let c = self.cli_cell(layout, &sorted, &[]);
                let _ = c.set(out);
            }
            pre
        })
        .clone()
    }

    fn cli_cell(&self, layout: &Layout, srcs: &[Source], flags: &[&str]) -> Arc<OnceLock<CliOut>> {
        let key = format!("{} {} {}", layout.to_sexp().render(), sources_sexp(srcs).render(), flags.join(" "));
        let mut m = self.cli_runs.lock().unwrap();
        m.entry(key).or_insert_with(|| Arc::new(OnceLock::new())).clone()
    }

    /// one run of the real binary per (layout, source ORDER, flags) and process
    fn run_cli_cached(&self, layout: &Layout, srcs: &[Source], flags: &[&str]) -> CliOut {
        let cell = self.cli_cell(layout, srcs, flags);
        cell.get_or_init(|| run_cli_flags(&env::cli_binary(), layout, srcs, flags)).clone()
    }
}

fn source_args(srcs: &[Source]) -> Vec<String> {
    srcs.iter().map(|(p, s)| if p.is_empty() { format!("{s}.qml") } else { format!("{}/{s}.qml", rel_name(p)) }).collect()
}

struct CliRun {
    code: Option<i32>,
    stderr: String,
    /// why the harness killed the process (None: it ended by itself)
    killed: Option<String>,
}

/// Runs the real binary on `sources` in `m.root`.  Its address space is limited (`ulimit -v`, 4 GiB); it is killed after
/// the time limit (`QV_C18_CLI_TIMEOUT`, default 60 s) and — when `max_dirs` is given, which turns the directory trace
/// on — as soon as it has logged more `processing directory` lines than that.
fn guarded_cli(bin: &std::path::Path, m: &Materialised, flags: &[&str], sources: &[String], max_dirs: Option<usize>) -> CliRun {
    use std::process::{Command, Stdio};
    let n = COUNTER.fetch_add(1, Ordering::Relaxed);
    let log = m.top.join(format!("stderr-{n}.log"));
    let errf = fs::File::create(&log).expect("stderr file");
    let mut cmd = Command::new("sh");
    cmd.arg("-c")
        .arg("ulimit -v 4194304; exec \"$0\" \"$@\"")
        .arg(bin)
        .current_dir(&m.root)
        .env("NO_COLOR", "")
        .env_remove("QMLUIC_LOG")
        .arg("generate-ui")
        .arg("--foreign-types")
        .arg(format!("{}/contrib/metatypes", env::REPO))
        .args(flags)
        .args(sources)
        .stdin(Stdio::null())
        .stdout(Stdio::null())
        .stderr(errf);
    if max_dirs.is_some() {
        cmd.env("QMLUIC_LOG", "qmluic::qmldir=trace");
    }
    let mut child = cmd.spawn().expect("qmluic binary starts");
    let limit = std::time::Duration::from_secs(std::env::var("QV_C18_CLI_TIMEOUT").ok().and_then(|v| v.parse().ok()).unwrap_or(60));
    let start = std::time::Instant::now();
    let mut killed = None;
    let mut seen_len = 0u64;
    let code = loop {
        if let Some(st) = child.try_wait().expect("wait") {
            break st.code();
        }
        if let Some(max) = max_dirs {
            let len = fs::metadata(&log).map(|x| x.len()).unwrap_or(0);
            if len != seen_len {
                seen_len = len;
                let n_dirs = fs::read(&log).map(|b| String::from_utf8_lossy(&b).matches("processing directory ").count()).unwrap_or(0);
                if n_dirs > max {
                    killed = Some(format!("discovery does not settle: {n_dirs} `processing directory` lines and counting, the layout has {max} directories"));
                }
            }
        }
        if killed.is_none() && start.elapsed() > limit {
            killed = Some(format!("no result within {} s", limit.as_secs()));
        }
        if killed.is_some() {
            let _ = child.kill();
            let _ = child.wait();
            break None;
        }
        std::thread::sleep(std::time::Duration::from_millis(3));
    };
    let stderr = fs::read(&log).map(|b| String::from_utf8_lossy(&b).into_owned()).unwrap_or_default();
    let _ = fs::remove_file(&log);
    CliRun { code, stderr, killed }
}

fn written_ui(layout: &Layout, m: &Materialised) -> BTreeMap<String, String> {
    let mut written = BTreeMap::new();
    for d in &layout.dirs {
        let dp = m.dir(&d.path);
        for e in fs::read_dir(&dp).unwrap().flatten() {
            let name = e.file_name().to_string_lossy().into_owned();
            if name.ends_with(".ui") {
                let rel = if d.path.is_empty() { name.clone() } else { format!("{}/{name}", rel_name(&d.path)) };
                written.insert(rel, fs::read_to_string(e.path()).unwrap_or_default());
            }
        }
    }
    written
}

fn preflight_run(layout: &Layout, srcs: &[Source]) -> (Result<Preflight, String>, Option<CliOut>) {
    let bin = env::cli_binary();
    let m = Materialised::new(layout);
    let run = guarded_cli(&bin, &m, &[], &source_args(srcs), Some(layout.dirs.len()));
    let out = match (&run.killed, run.code) {
        (None, Some(c)) => Some((c, written_ui(layout, &m))),
        _ => None,
    };
    (preflight_judge(&m, run), out)
}

fn preflight_judge(m: &Materialised, run: CliRun) -> Result<Preflight, String> {
    let quoted = |line: &str, what: &str| -> Option<String> {
        let rest = &line[line.find(what)? + what.len()..];
        let rest = rest.strip_prefix('"')?;
        Some(rest[..rest.rfind('"')?].to_owned())
    };
    let canon = |raw: &str| m.rel_of(camino::Utf8Path::new(raw)).map(|r| rel_name(&r)).unwrap_or_else(|| "<outside>".to_owned());
    let mut dirs = vec![];
    let mut files = vec![];
    for line in run.stderr.lines() {
        if let Some(p) = quoted(line, "processing directory ") {
            let c = canon(&p);
            dirs.push((p.replace(m.root.as_str(), ""), c));
        } else if let Some(p) = quoted(line, "processing file ") {
            // a file is identified by its (canonical) directory and its own name: an alias is a file of its own
            let p = camino::Utf8Path::new(&p);
            let dir = p.parent().map(|d| canon(d.as_str())).unwrap_or_default();
            let name = p.file_name().unwrap_or("?");
            files.push(if dir.is_empty() { name.to_owned() } else { format!("{dir}/{name}") });
        }
    }
    let shown = || dirs.iter().take(5).map(|d| format!("{:?}", d.0)).collect::<Vec<_>>().join(" ");
    if let Some(why) = run.killed {
        return Err(format!("{why}; first directories logged: {}", shown()));
    }
    match run.code {
        Some(c) => Ok(Preflight { exit: c, dirs, files }),
        None => Err(format!("the binary was ended by a signal (memory limit 4 GiB?) after {} `processing directory` lines: {}", dirs.len(), shown())),
    }
}

/// One CLI run in a fresh copy of the layout: (exit status, written .ui files with their content).
/// (only used after the preflight of the layout has passed; guarded by the time and memory limits all the same)
fn run_cli_flags(bin: &std::path::Path, layout: &Layout, srcs: &[Source], flags: &[&str]) -> (i32, BTreeMap<String, String>) {
    let m = Materialised::new(layout);
    let run = guarded_cli(bin, &m, flags, &source_args(srcs), None);
    (if run.killed.is_some() { -2 } else { run.code.unwrap_or(-1) }, written_ui(layout, &m))
}

// ---------------------------------------------------------------------------------------------
// the file-system judge (oracles `c18-judge`, `c18-judge-all`)
//
// What a document must come to, decided from the generated layout and the REAL file system only — neither the type map
// of the code under test nor the Lean model is asked.  The judge follows names the way a reader of the files would:
// a type `X` is the Qt class `X` (if the file imports the Qt module) or the component `X.qml` of a directory the file
// sees; a component is what its own root object is, seen from the component's file.  It refuses to judge (and says so)
// wherever that reading is not unambiguous: the same name in two visible directories, a component called like a Qt
// class, a file without root object, an unknown named module on the way, a Qt class outside the measured table.

enum Res<'a> {
    Qt(&'a QtInfo),
    Comp(Vec<String>, &'a QmlFile),
    Unknown,
    Skip(&'static str),
}

enum End<'a> {
    Qt(&'a QtInfo),
    /// the name that did not resolve (root type of the last component reached)
    Unknown(String),
    Cycle,
    Skip(&'static str),
}

/// what the judge expects of one document
#[derive(Debug)]
struct Expect {
    built: bool,
    /// sorted diagnostic messages
    diags: Vec<String>,
    /// the objects of the form, root first, then the children that resolve in document order: class as the `.ui`
    /// shows it and the binding that must reach the `.ui`
    objects: Vec<(String, Vec<String>)>,
    /// `<customwidgets>`: (class, extends, header stem) — header stem is the class name, the file-name rule is applied later
    customs: BTreeSet<(String, String)>,
}

const MSG_VERSION_IGNORED: &str = "import version is ignored";
const MSG_ALIASED: &str = "aliased import is not supported";

impl Expect {
    /// built and no ERROR: the version warning does not reject
    fn accepted(&self) -> bool {
        self.built && self.diags.iter().all(|d| d == MSG_VERSION_IGNORED)
    }
}

struct Judge<'a> {
    qt: &'a [QtInfo],
    qt_names: &'a BTreeSet<String>,
    layout: &'a Layout,
    m: &'a Materialised,
}

struct Seen {
    /// canonical directories (own one first), without repetition
    dirs: Vec<Vec<String>>,
    /// string imports that are no directory
    dead_imports: usize,
    qt_imported: bool,
    other_named: usize,
}

impl<'a> Judge<'a> {
    /// `base`: the directory of the file as the file is reached (for a source: as named on the command line)
    fn sees(&self, base: &camino::Utf8Path, own: &[String], imports: &[ImportStmt]) -> Seen {
        let mut s = Seen { dirs: vec![own.to_vec()], dead_imports: 0, qt_imported: false, other_named: 0 };
        for i in live(imports) {
            match i {
                Import::Named(n) if n == QT_MODULE => s.qt_imported = true,
                Import::Named(_) => s.other_named += 1,
                Import::Dir(segs) => {
                    let target = base.join(segs.join("/"));
                    match (target.is_dir(), self.m.rel_of(&target)) {
                        (true, Some(rel)) => {
                            if !s.dirs.contains(&rel) {
                                s.dirs.push(rel);
                            }
                        }
                        _ => s.dead_imports += 1,
                    }
                }
            }
        }
        s
    }

    fn resolve(&self, seen: &Seen, ty: &str) -> Res<'a> {
        let holders: Vec<(Vec<String>, &'a QmlFile)> = seen
            .dirs
            .iter()
            .flat_map(|v| self.layout.files_of(v).into_iter().filter(|(stem, _)| stem == ty).map(move |(_, f)| (v.clone(), f)))
            .collect();
        let is_qt = self.qt_names.contains(ty);
        if !holders.is_empty() && is_qt {
            return Res::Skip("component named like a Qt class");
        }
        match holders.as_slice() {
            [] => {}
            [(d, f)] => return if f.has_root { Res::Comp(d.clone(), f) } else { Res::Skip("file without root object") },
            _ => return Res::Skip("same name in several visible directories"),
        }
        if !is_qt || !seen.qt_imported {
            return Res::Unknown;
        }
        match self.qt.iter().find(|q| q.name == ty) {
            Some(q) => Res::Qt(q),
            None => Res::Skip("Qt class outside the measured table"),
        }
    }

    /// where the chain of root types that starts at component `f` of directory `d` ends
    fn chain_end(&self, d: &[String], f: &'a QmlFile) -> End<'a> {
        let mut visited: Vec<(Vec<String>, String)> = vec![(d.to_vec(), f.stem.clone())];
        let (mut d, mut f) = (d.to_vec(), f);
        loop {
            let seen = self.sees(&self.m.dir(&d), &d, &f.imports);
            if seen.other_named > 0 {
                return End::Skip("unknown named module imported by a component");
            }
            match self.resolve(&seen, &f.root.ty) {
                Res::Qt(q) => return End::Qt(q),
                Res::Unknown => return End::Unknown(f.root.ty.clone()),
                Res::Skip(w) => return End::Skip(w),
                Res::Comp(d2, f2) => {
                    let key = (d2.clone(), f2.stem.clone());
                    if visited.contains(&key) {
                        return End::Cycle;
                    }
                    visited.push(key);
                    d = d2;
                    f = f2;
                }
            }
        }
    }

    /// `p`: directory of the source as named on the command line, `rp`: its canonical form
    fn expect(&self, p: &[String], rp: &[String], f: &'a QmlFile) -> Result<Expect, &'static str> {
        let seen = self.sees(&self.m.dir(p), rp, &f.imports);
        let mut diags: Vec<String> = vec!["module not found".to_owned(); seen.dead_imports + seen.other_named];
        // the statements themselves: an alias is an error (and the statement does not count: `sees` skips it), a version
        // a warning
        for i in &f.imports {
            if i.alias.is_some() {
                diags.push(MSG_ALIASED.to_owned());
            } else if i.version.is_some() {
                diags.push(MSG_VERSION_IGNORED.to_owned());
            }
        }
        let mut e = Expect { built: false, diags: vec![], objects: vec![], customs: BTreeSet::new() };
        let root = match self.resolve(&seen, &f.root.ty) {
            Res::Skip(w) => return Err(w),
            Res::Unknown => {
                // no object tree, nothing else is looked at
                diags.push(format!("unknown object type: {}", f.root.ty));
                diags.sort();
                e.diags = diags;
                return Ok(e);
            }
            r => r,
        };
        e.built = true;
        let mut objs: Vec<(&Obj, Res<'a>, bool)> = vec![(&f.root, root, true)];
        for c in &f.children {
            match self.resolve(&seen, &c.ty) {
                Res::Skip(w) => return Err(w),
                Res::Unknown => diags.push(format!("unknown object type: {}", c.ty)),
                r => objs.push((c, r, false)),
            }
        }
        for (o, r, is_root) in objs {
            let end = match r {
                Res::Qt(q) => End::Qt(q),
                Res::Comp(d, cf) => {
                    // extends: the type name written as the root object of the component's own file
                    e.customs.insert((o.ty.clone(), cf.root.ty.clone()));
                    self.chain_end(&d, cf)
                }
                Res::Unknown | Res::Skip(_) => unreachable!(),
            };
            if let End::Skip(w) = end {
                return Err(w);
            }
            let mut bound = vec![];
            if let Some(p) = &o.prop {
                match &end {
                    End::Qt(q) if q.props.contains(p) => bound.push(p.clone()),
                    End::Qt(_) | End::Cycle => diags.push(format!("unknown property of class '{}': {p}", o.ty)),
                    End::Unknown(n) => diags.push(format!("property resolution failed: invalid type reference '{n}'")),
                    End::Skip(_) => unreachable!(),
                }
            }
            let kind = match &end {
                End::Qt(q) => q.kind,
                _ => Kind::Other,
            };
            if is_root {
                if kind != Kind::Widget {
                    diags.push(format!("class '{}' is not a QWidget", o.ty));
                }
            } else if kind == Kind::Other {
                diags.push(format!("class '{}' is not a QAction, QLayout, nor QWidget", o.ty));
            }
            let shown = if kind == Kind::Action && !is_root { "QAction".to_owned() } else { o.ty.clone() };
            e.objects.push((shown, bound));
        }
        diags.sort();
        e.diags = diags;
        Ok(e)
    }
}

fn strs_sexp(tag: &str, v: &[String]) -> Sexp {
    node(tag, v.iter().map(|s| st(s.clone())).collect())
}

impl C18 {
    /// `strict`: a document the judge cannot judge is a failure (the chain family and the corpus are unambiguous by
    /// construction)
    fn judge(&self, layout: &Layout, srcs: &[Source], strict: bool) -> Sexp {
        if !layout.flinks.is_empty() {
            return node("ok", vec![node("not-judged", vec![atom("file-aliases")])]);
        }
        let r = match self.run_real(layout, srcs) {
            Ok(r) => r,
            Err(e) => return node("violation", vec![e]),
        };
        let m = Materialised::new(layout);
        let j = Judge { qt: &self.qt, qt_names: &self.qt_names, layout, m: &m };
        // (name of the .ui below the root, expectation) per source; None: not judged
        let mut verdicts: Vec<Option<(String, Expect)>> = vec![];
        let (mut n_acc, mut n_rej, mut n_skip) = (0usize, 0usize, 0usize);
        for ((p, s), o) in srcs.iter().zip(&r.outputs) {
            let Some(rp) = m.rel_of(&m.dir(p)) else { return node("bad-request", vec![]) };
            let Some(f) = layout.dirs.iter().find(|d| d.path == rp).and_then(|d| d.files.iter().find(|f| &f.stem == s)) else {
                return node("bad-request", vec![]);
            };
            let e = match j.expect(p, &rp, f) {
                Ok(e) => e,
                Err(why) => {
                    if strict {
                        return node("violation", vec![atom("not-judged"), st(o.name.clone()), st(why)]);
                    }
                    n_skip += 1;
                    verdicts.push(None);
                    continue;
                }
            };
            let Some(diags) = &o.diags else {
                return node("violation", vec![atom("source-not-translated"), st(o.name.clone())]);
            };
            // (1) exactly the diagnostics the files call for: a document in which everything resolves, every chain ends
            //     in a class of the right kind and every bound property exists is ACCEPTED; a fault is diagnosed, once
            if *diags != e.diags || o.built != e.built {
                let what = if e.accepted() { "good-document-rejected" } else if o.accepted { "faulty-document-accepted" } else { "diagnostics" };
                return node(
                    "violation",
                    vec![
                        atom(what),
                        st(o.name.clone()),
                        node("expected", vec![node("built", vec![boolean(e.built)]), strs_sexp("diags", &e.diags)]),
                        node("got", vec![node("built", vec![boolean(o.built)]), strs_sexp("diags", diags)]),
                    ],
                );
            }
            if o.accepted != e.accepted() {
                return node("violation", vec![atom("accepted"), st(o.name.clone()), boolean(o.accepted)]);
            }
            if e.accepted() {
                // (2) every object is in the form under its class with the binding it was given
                let got: Vec<(String, Vec<String>)> = o.widgets.clone();
                if got != e.objects {
                    let show = |v: &[(String, Vec<String>)]| -> Vec<Sexp> {
                        v.iter().map(|(c, ps)| list(std::iter::once(st(c.clone())).chain(ps.iter().map(|p| st(p.clone()))).collect())).collect()
                    };
                    return node(
                        "violation",
                        vec![atom("objects-in-ui"), st(o.name.clone()), node("expected", show(&e.objects)), node("got", show(&got))],
                    );
                }
                // (3) <customwidgets>: the components instantiated, each once, extends = its own root type, header by rule
                if let Some(v) = customs_violation(&o.name, &o.customs, &e.customs, true) {
                    return v;
                }
                n_acc += 1;
            } else {
                n_rej += 1;
            }
            let ui = uiFileNameLower(s);
            verdicts.push(Some((if rp.is_empty() { ui } else { format!("{}/{ui}", rel_name(&rp)) }, e)));
        }
        // (4) the real command line, the sources in sorted order (the run the preflight made)
        let mut sorted: Vec<Source> = srcs.to_vec();
        sorted.sort();
        sorted.dedup();
        let (code, written) = self.run_cli_cached(layout, &sorted, &[]);
        if code != 0 && code != 1 {
            return node("violation", vec![atom("cli-exit-status"), atom(code.to_string())]);
        }
        let judged: Vec<&(String, Expect)> = verdicts.iter().flatten().collect();
        for (ui, e) in &judged {
            match (e.accepted(), written.get(ui)) {
                (true, None) => return node("violation", vec![atom("cli-good-document-not-written"), st(ui.clone()), node("exit", vec![atom(code.to_string())])]),
                (false, Some(_)) => {
                    // another source may write the same name (Foo.qml / foo.qml): only a name no accepted source owns counts
                    if !judged.iter().any(|(u2, e2)| u2 == ui && e2.accepted()) && verdicts.iter().all(|v| v.is_some()) {
                        return node("violation", vec![atom("cli-faulty-document-written"), st(ui.clone())]);
                    }
                }
                (true, Some(text)) => {
                    let Ok(x) = xml::parse(text) else { return node("violation", vec![atom("ill-formed-ui"), st(ui.clone())]) };
                    let x = xml::strip_indent(&x);
                    let mut customs = vec![];
                    if let Some(cw) = x.child("customwidgets") {
                        for c in cw.children_named("customwidget") {
                            let g = |n: &str| c.child(n).map(|e| e.text()).unwrap_or_default();
                            customs.push((g("class"), g("extends"), g("header")));
                        }
                    }
                    if let Some(v) = customs_violation(ui, &customs, &e.customs, true) {
                        return v;
                    }
                }
                (false, None) => {}
            }
        }
        if judged.iter().any(|(_, e)| !e.accepted()) && code != 1 {
            return node("violation", vec![atom("cli-exit-status-with-faulty-source"), atom(code.to_string())]);
        }
        if n_skip == 0 && judged.iter().all(|(_, e)| e.accepted()) && code != 0 {
            return node("violation", vec![atom("cli-exit-status-all-good"), atom(code.to_string())]);
        }
        node(
            "ok",
            vec![node("accepted", vec![atom(n_acc.to_string())]), node("rejected", vec![atom(n_rej.to_string())]), node("not-judged", vec![atom(n_skip.to_string())])],
        )
    }
}

#[allow(non_snake_case)]
fn uiFileNameLower(stem: &str) -> String {
    format!("{}.ui", stem.to_ascii_lowercase())
}

/// `<customwidgets>` against the judge's set: no class twice, the same classes, `extends` as written in the component's
/// file, header = `<class>.h` lower-cased (`lower`) or as it is
fn customs_violation(doc: &str, got: &[(String, String, String)], want: &BTreeSet<(String, String)>, lower: bool) -> Option<Sexp> {
    let mut seen = BTreeSet::new();
    for (class, _, _) in got {
        if !seen.insert(class.clone()) {
            return Some(node("violation", vec![atom("listed-twice"), st(doc), st(class.clone())]));
        }
    }
    let got_set: BTreeSet<(String, String, String)> = got.iter().cloned().collect();
    let want_set: BTreeSet<(String, String, String)> = want
        .iter()
        .map(|(c, x)| (c.clone(), x.clone(), if lower { format!("{}.h", c.to_ascii_lowercase()) } else { format!("{c}.h") }))
        .collect();
    if got_set != want_set {
        let show = |v: &BTreeSet<(String, String, String)>| -> Vec<Sexp> { v.iter().map(|(a, b, c)| list(vec![st(a.clone()), st(b.clone()), st(c.clone())])).collect() };
        return Some(node("violation", vec![atom("customwidgets"), st(doc), node("expected", show(&want_set)), node("got", show(&got_set))]));
    }
    None
}

fn run_out_sexp(r: &RunOut) -> Sexp {
    node(
        "c18",
        vec![
            node("dirs", r.dirs.iter().map(|d| st(d.clone())).collect()),
            node("modules", r.modules.clone()),
            node(
                "outputs",
                r.outputs
                    .iter()
                    .map(|o| {
                        let mut v = vec![st(o.name.clone())];
                        v.extend(o.body.iter().cloned());
                        list(v)
                    })
                    .collect(),
            ),
        ],
    )
}

fn sample_perms(srcs: &[Source], rng: &mut Rng) -> Vec<Vec<Source>> {
    if srcs.len() <= 4 {
        permutations(srcs)
    } else {
        let mut v = vec![srcs.to_vec(), srcs.iter().rev().cloned().collect()];
        for _ in 0..6 {
            let mut p = srcs.to_vec();
            rng.shuffle(&mut p);
            if !v.contains(&p) {
                v.push(p);
            }
        }
        v
    }
}

impl Stream for C18 {
    fn generate(&self, seed: u64, thorough: bool) -> Vec<Case> {
        let mut rng = Rng::fork(seed, "c18", 0);
        let n_layouts = if thorough { 3_000 } else { 360 };
        let mut cases = vec![];
        let qt = self.qt_sexp();
        // import spellings, cycles of length 2 and 3, one directory under two spellings (model + oracles); with symbolic
        // links (outside the model: oracles only)
        let n_spell = if thorough { 900 } else { 110 };
        let n_links = if thorough { 400 } else { 50 };
        for k in 0..n_spell + n_links {
            let with_links = k >= n_spell;
            let mut r2 = Rng::fork(seed, if with_links { "c18-links" } else { "c18-spell" }, k as u64);
            let (layout, srcs, labels) = gen_spelling_layout(&mut r2, with_links);
            let tree = layout.to_sexp();
            let args = vec![qt.clone(), tree.clone(), sources_sexp(&srcs)];
            if !with_links {
                for p in &permutations(&srcs) {
                    cases.push(Case { kind: "model", labels: labels.clone(), request: node("c18", vec![qt.clone(), tree.clone(), sources_sexp(p)]) });
                }
                cases.push(Case { kind: "spec", labels: labels.clone(), request: node("spec-c18-dirs", args.clone()) });
                cases.push(Case { kind: "model", labels: labels.clone(), request: node("c18-cliout", args.clone()) });
            }
            for tag in ["c18-once", "c18-resolve", "c18-reach", "c18-exact", "c18-perms", "c18-judge"] {
                cases.push(Case { kind: "oracle", labels: labels.clone(), request: node(tag, args.clone()) });
            }
            if k % 3 == 0 {
                cases.push(Case { kind: "oracle", labels: labels.clone(), request: node("c18-nolower", args.clone()) });
            }
            if k % 4 == 1 {
                cases.push(Case { kind: "oracle", labels: labels.clone(), request: node("c18-cli6", args.clone()) });
            }
        }
        if f50_listed() {
            for k in 0..if thorough { 60 } else { 12 } {
                let mut r2 = Rng::fork(seed, "c18-alias", k as u64);
                let (layout, srcs, labels) = gen_alias_layout(&mut r2);
                let args = vec![qt.clone(), layout.to_sexp(), sources_sexp(&srcs)];
                for tag in ["c18-resolve", "c18-perms", "c18-once"] {
                    cases.push(Case { kind: "oracle", labels: labels.clone(), request: node(tag, args.clone()) });
                }
            }
        }
        // chains of components (length 1..=4; within one directory / across directories / mixed; ending in a widget, a
        // layout, an action, QObject, nothing, or a cycle): model + the file-system judge + the other oracles
        // (72 = every combination of length, placement and end once; which cycle / unknown variant meets which placement
        // first depends on the seed)
        let n_chain = if thorough { 432 } else { 72 };
        let variant_offset = Rng::fork(seed, "c18-chain-variant", 0).below(3);
        for k in 0..n_chain {
            let mut r2 = Rng::fork(seed, "c18-chain", k as u64);
            let (layout, sets, labels) = gen_chain_layout(&mut r2, k, variant_offset, &self.qt);
            let tree = layout.to_sexp();
            for (si, set) in sets.iter().enumerate() {
                let mut labels = labels.clone();
                labels.push(format!("sources{}", set.srcs.len()));
                let perms = if set.all_orders {
                    permutations(&set.srcs)
                } else {
                    let mut v = vec![set.srcs.clone(), set.srcs.iter().rev().cloned().collect::<Vec<_>>()];
                    for _ in 0..2 {
                        let mut p = set.srcs.clone();
                        r2.shuffle(&mut p);
                        v.push(p);
                    }
                    v.dedup();
                    v
                };
                for p in &perms {
                    cases.push(Case { kind: "model", labels: labels.clone(), request: node("c18", vec![qt.clone(), tree.clone(), sources_sexp(p)]) });
                }
                let args = vec![qt.clone(), tree.clone(), sources_sexp(&set.srcs)];
                cases.push(Case { kind: "spec", labels: labels.clone(), request: node("spec-c18-dirs", args.clone()) });
                cases.push(Case { kind: "model", labels: labels.clone(), request: node("c18-cliout", args.clone()) });
                for tag in ["c18-judge-all", "c18-once", "c18-resolve", "c18-reach", "c18-exact"] {
                    cases.push(Case { kind: "oracle", labels: labels.clone(), request: node(tag, args.clone()) });
                }
                if set.all_orders {
                    cases.push(Case { kind: "oracle", labels: labels.clone(), request: node("c18-perms", args.clone()) });
                }
                if (k + si) % 4 == 0 {
                    cases.push(Case { kind: "oracle", labels: labels.clone(), request: node("c18-nolower", args.clone()) });
                }
                if (k + si) % 12 == 1 {
                    cases.push(Case { kind: "oracle", labels: labels.clone(), request: node("c18-cli6", args.clone()) });
                }
            }
        }
        // every way an import list can be written (version, alias, repetition, order, unused imports), in sources and in
        // discovered components: model + the file-system judge + the other oracles
        let n_imp = if thorough { 360 } else { 60 };
        for k in 0..n_imp {
            let mut r2 = Rng::fork(seed, "c18-imports", k as u64);
            let (layout, sets, labels) = gen_import_layout(&mut r2, k, &self.qt);
            let tree = layout.to_sexp();
            for (si, set) in sets.iter().enumerate() {
                let mut labels = labels.clone();
                labels.push(format!("sources{}", set.srcs.len()));
                let mut perms = vec![set.srcs.clone(), set.srcs.iter().rev().cloned().collect::<Vec<_>>()];
                let mut p = set.srcs.clone();
                r2.shuffle(&mut p);
                perms.push(p);
                perms.dedup();
                for p in &perms {
                    cases.push(Case { kind: "model", labels: labels.clone(), request: node("c18", vec![qt.clone(), tree.clone(), sources_sexp(p)]) });
                }
                let args = vec![qt.clone(), tree.clone(), sources_sexp(&set.srcs)];
                cases.push(Case { kind: "spec", labels: labels.clone(), request: node("spec-c18-dirs", args.clone()) });
                cases.push(Case { kind: "model", labels: labels.clone(), request: node("c18-cliout", args.clone()) });
                for tag in ["c18-judge-all", "c18-once", "c18-resolve", "c18-reach", "c18-exact"] {
                    cases.push(Case { kind: "oracle", labels: labels.clone(), request: node(tag, args.clone()) });
                }
                if si == 0 {
                    cases.push(Case { kind: "oracle", labels: labels.clone(), request: node("c18-perms", args.clone()) });
                }
                if (k + si) % 6 == 0 {
                    cases.push(Case { kind: "oracle", labels: labels.clone(), request: node("c18-nolower", args.clone()) });
                }
            }
        }
        for _ in 0..n_layouts {
            let (layout, mut labels) = gen_layout(&mut rng);
            let candidates: Vec<Source> = layout
                .dirs
                .iter()
                .flat_map(|d| d.files.iter().filter(|f| f.has_root).map(|f| (d.path.clone(), f.stem.clone())))
                .collect();
            if candidates.is_empty() {
                continue;
            }
            let n_src = (1 + rng.below(5)).min(candidates.len());
            let mut pool = candidates.clone();
            rng.shuffle(&mut pool);
            let srcs: Vec<Source> = pool.into_iter().take(n_src).collect();
            labels.push(format!("sources{n_src}"));
            let tree = layout.to_sexp();
            let perms = sample_perms(&srcs, &mut rng);
            for p in &perms {
                cases.push(Case {
                    kind: "model",
                    labels: labels.clone(),
                    request: node("c18", vec![qt.clone(), tree.clone(), sources_sexp(p)]),
                });
            }
            let args = vec![qt.clone(), tree.clone(), sources_sexp(&srcs)];
            cases.push(Case { kind: "spec", labels: labels.clone(), request: node("spec-c18-dirs", args.clone()) });
            cases.push(Case { kind: "oracle", labels: labels.clone(), request: node("c18-perms", args.clone()) });
            cases.push(Case { kind: "oracle", labels: labels.clone(), request: node("c18-exact", args.clone()) });
            cases.push(Case { kind: "oracle", labels: labels.clone(), request: node("c18-reach", args.clone()) });
            cases.push(Case { kind: "oracle", labels: labels.clone(), request: node("c18-once", args.clone()) });
            cases.push(Case { kind: "oracle", labels: labels.clone(), request: node("c18-resolve", args.clone()) });
            cases.push(Case { kind: "oracle", labels: labels.clone(), request: node("c18-judge", args.clone()) });
            if cases.len() % 5 == 0 {
                cases.push(Case { kind: "oracle", labels: labels.clone(), request: node("c18-nolower", args.clone()) });
            }
            // the real binary: order independence (≤ 6 orders) and, for two orders, the model of the loop
            cases.push(Case { kind: "oracle", labels: labels.clone(), request: node("c18-cli6", args.clone()) });
            cases.push(Case { kind: "model", labels: labels.clone(), request: node("c18-cliout", args) });
            let rev: Vec<Source> = srcs.iter().rev().cloned().collect();
            cases.push(Case { kind: "model", labels, request: node("c18-cliout", vec![qt.clone(), tree.clone(), sources_sexp(&rev)]) });
        }
        cases
    }

    fn answer(&self, req: &Sexp) -> Sexp {
        let (tag, args) = req.as_node().expect("request node");
        if args.len() != 3 {
            return node("bad-request", vec![]);
        }
        let Some(layout) = Layout::from_sexp(&args[1]) else { return node("bad-request", vec![]) };
        let Some(srcs) = parse_sources(&args[2]) else { return node("bad-request", vec![]) };
        // the real binary first, guarded: a discovery that does not terminate must not be run in-process
        let pre = match self.preflight(&layout, &srcs) {
            Ok(p) => p,
            Err(why) => return node("fail", vec![st("preflight"), st(why)]),
        };
        match tag {
            "c18-once" => {
                if pre.exit != 0 && pre.exit != 1 {
                    return node("violation", vec![atom("cli-exit-status"), atom(pre.exit.to_string())]);
                }
                let mut count: BTreeMap<&str, usize> = BTreeMap::new();
                for (_, c) in &pre.dirs {
                    *count.entry(c.as_str()).or_insert(0) += 1;
                }
                if let Some((d, n)) = count.iter().find(|(_, n)| **n > 1) {
                    let spellings: Vec<Sexp> = pre.dirs.iter().filter(|(_, c)| c == d).map(|(raw, _)| st(raw.clone())).collect();
                    return node("violation", vec![atom("directory-processed-more-than-once"), st(d.to_string()), atom(n.to_string()), node("as", spellings)]);
                }
                if count.contains_key("<outside>") {
                    return node("violation", vec![atom("escaped-root")]);
                }
                let got: Vec<String> = count.keys().map(|d| d.to_string()).collect();
                let want = self.reach_real(&layout, &srcs);
                if got != want {
                    return node(
                        "violation",
                        vec![
                            atom("processed-differs-from-reachable"),
                            node("processed", got.iter().map(|d| st(d.clone())).collect()),
                            node("reachable", want.iter().map(|d| st(d.clone())).collect()),
                        ],
                    );
                }
                // every .qml file of a processed directory exactly once, nothing else
                let mut files = pre.files.clone();
                files.sort();
                let mut want_files: Vec<String> = layout
                    .dirs
                    .iter()
                    .filter(|d| got.contains(&rel_name(&d.path)))
                    .flat_map(|d| {
                        layout.files_of(&d.path).into_iter().map(|(stem, _)| if d.path.is_empty() { format!("{stem}.qml") } else { format!("{}/{stem}.qml", rel_name(&d.path)) })
                    })
                    .collect();
                want_files.sort();
                if files != want_files {
                    return node(
                        "violation",
                        vec![
                            atom("files-processed"),
                            node("processed", files.iter().map(|d| st(d.clone())).collect()),
                            node("expected-each-once", want_files.iter().map(|d| st(d.clone())).collect()),
                        ],
                    );
                }
                node("ok", vec![node("dirs", vec![atom(got.len().to_string())]), node("files", vec![atom(files.len().to_string())])])
            }
            "c18-resolve" => {
                let r = match self.run_real(&layout, &srcs) {
                    Ok(r) => r,
                    Err(e) => return node("violation", vec![e]),
                };
                let m = Materialised::new(&layout);
                let mut checked = 0usize;
                for ((p, s), o) in srcs.iter().zip(&r.outputs) {
                    let Some(diags) = &o.diags else {
                        return node("violation", vec![atom("source-not-translated"), st(o.name.clone())]);
                    };
                    let Some(rp) = m.rel_of(&m.dir(p)) else { return node("bad-request", vec![]) };
                    let Some(f) = layout.dirs.iter().find(|d| d.path == rp).and_then(|d| d.files.iter().find(|f| &f.stem == s)) else {
                        return node("bad-request", vec![]);
                    };
                    // what the file system says about the imports
                    let mut visible: Vec<Vec<String>> = vec![rp.clone()];
                    let mut unresolved = 0usize;
                    for i in live(&f.imports) {
                        match i {
                            Import::Named(n) => {
                                if n != QT_MODULE {
                                    unresolved += 1;
                                }
                            }
                            Import::Dir(segs) => {
                                let target = m.dir(p).join(segs.join("/"));
                                match (target.is_dir(), m.rel_of(&target)) {
                                    (true, Some(rel)) => visible.push(rel),
                                    _ => unresolved += 1,
                                }
                            }
                        }
                    }
                    let not_found = diags.iter().filter(|d| d.as_str() == "module not found").count();
                    if not_found != unresolved {
                        return node(
                            "violation",
                            vec![
                                atom("module-not-found"),
                                st(o.name.clone()),
                                node("diagnosed", vec![atom(not_found.to_string())]),
                                node("imports-that-lead-nowhere", vec![atom(unresolved.to_string())]),
                                node("imports", live(&f.imports).filter_map(|i| if let Import::Dir(x) = i { Some(st(x.join("/"))) } else { None }).collect()),
                            ],
                        );
                    }
                    if diags.iter().any(|d| d == "directory module not found") {
                        return node("violation", vec![atom("own-directory-module-not-found"), st(o.name.clone())]);
                    }
                    // X.qml (with a root object) in a visible directory ⇒ X is a known type
                    for used in std::iter::once(&f.root).chain(&f.children) {
                        let has_file = visible.iter().any(|v| layout.files_of(v).iter().any(|(stem, x)| x.has_root && *stem == used.ty));
                        if has_file {
                            checked += 1;
                            if diags.iter().any(|d| *d == format!("unknown object type: {}", used.ty)) {
                                return node("violation", vec![atom("component-file-not-usable-as-type"), st(o.name.clone()), st(used.ty.clone())]);
                            }
                        }
                        // an instance of a component accepts the properties of the component's (Qt) base class
                        if let (true, Some(prop)) = (has_file && !is_table_class(&used.ty), &used.prop) {
                            if let Some(base) = qt_base_of(&layout, &m, &rp, &f.imports, &used.ty, 0) {
                                let has_prop = self.qt.iter().any(|q| q.name == base && q.props.contains(prop));
                                if has_prop {
                                    checked += 1;
                                    if diags.iter().any(|d| d.contains("unknown property") && d.contains(&format!("'{}'", used.ty)) && d.ends_with(&format!(": {prop}"))) {
                                        return node(
                                            "violation",
                                            vec![atom("base-class-property-rejected"), st(o.name.clone()), st(used.ty.clone()), st(base), st(prop.clone())],
                                        );
                                    }
                                    // an instance of an action component is written as a plain `<action>`
                                    let is_action = self.qt.iter().any(|q| q.name == base && q.kind == Kind::Action);
                                    let shown = if is_action { "QAction" } else { used.ty.as_str() };
                                    if o.accepted && !o.widgets.iter().any(|(c, ps)| c == shown && ps.contains(prop)) {
                                        return node(
                                            "violation",
                                            vec![atom("base-class-property-not-in-ui"), st(o.name.clone()), st(used.ty.clone()), st(base), st(prop.clone())],
                                        );
                                    }
                                }
                            }
                        }
                    }
                }
                node("ok", vec![atom(checked.to_string())])
            }
            "c18-judge" => self.judge(&layout, &srcs, false),
            "c18-judge-all" => self.judge(&layout, &srcs, true),
            "c18-nolower" => {
                let r = match self.run_real(&layout, &srcs) {
                    Ok(r) => r,
                    Err(e) => return node("violation", vec![e]),
                };
                let m = Materialised::new(&layout);
                let (code, written) = self.run_cli_cached(&layout, &srcs, &["--no-lowercase-file-name"]);
                let mut expected: BTreeSet<String> = BTreeSet::new();
                for ((p, s), o) in srcs.iter().zip(&r.outputs) {
                    if o.accepted {
                        let rp = m.rel_of(&m.dir(p)).unwrap_or_else(|| p.clone());
                        expected.insert(if rp.is_empty() { format!("{s}.ui") } else { format!("{}/{s}.ui", rel_name(&rp)) });
                    }
                }
                let got: BTreeSet<String> = written.keys().cloned().collect();
                if got != expected {
                    return node(
                        "violation",
                        vec![
                            atom("files-with-no-lowercase-file-name"),
                            node("written", got.iter().map(|d| st(d.clone())).collect()),
                            node("expected", expected.iter().map(|d| st(d.clone())).collect()),
                        ],
                    );
                }
                let all_ok = r.outputs.iter().all(|o| o.accepted);
                if code != if all_ok { 0 } else { 1 } {
                    return node("violation", vec![atom("cli-exit-status"), atom(code.to_string())]);
                }
                let mut checked = 0usize;
                for (name, text) in &written {
                    let Ok(ui) = xml::parse(text) else { return node("violation", vec![atom("ill-formed-ui"), st(name.clone())]) };
                    let ui = xml::strip_indent(&ui);
                    if let Some(cw) = ui.child("customwidgets") {
                        for c in cw.children_named("customwidget") {
                            let g = |n: &str| c.child(n).map(|e| e.text()).unwrap_or_default();
                            checked += 1;
                            if g("header") != format!("{}.h", g("class")) {
                                return node("violation", vec![atom("header-case"), st(name.clone()), st(g("class")), st(g("header"))]);
                            }
                        }
                    }
                }
                node("ok", vec![atom(checked.to_string())])
            }
            "c18" => match self.run_real(&layout, &srcs) {
                Ok(r) => run_out_sexp(&r),
                Err(e) => e,
            },
            "spec-c18-dirs" => match self.run_real(&layout, &srcs) {
                Ok(r) => node("dirs", r.dirs.iter().map(|d| st(d.clone())).collect()),
                Err(e) => e,
            },
            "c18-reach" => {
                let want = self.reach_real(&layout, &srcs);
                match self.run_real(&layout, &srcs) {
                    Ok(r) if r.dirs == want => node("ok", vec![atom(want.len().to_string())]),
                    Ok(r) => node(
                        "violation",
                        vec![
                            atom("discovered-differs-from-reachable"),
                            node("discovered", r.dirs.iter().map(|d| st(d.clone())).collect()),
                            node("reachable", want.iter().map(|d| st(d.clone())).collect()),
                        ],
                    ),
                    Err(e) => node("violation", vec![e]),
                }
            }
            "c18-perms" => {
                // the answer for every source, the module table and the directory set must not depend on the order
                let mut rng = Rng::fork(srcs.len() as u64, "c18-perms", layout.dirs.len() as u64);
                let perms = sample_perms(&srcs, &mut rng);
                let mut first: Option<(Vec<String>, Vec<Sexp>, BTreeMap<String, Vec<Sexp>>)> = None;
                for p in &perms {
                    let r = match self.run_real(&layout, p) {
                        Ok(r) => r,
                        Err(e) => return node("violation", vec![e]),
                    };
                    let by_src: BTreeMap<String, Vec<Sexp>> = r.outputs.iter().map(|o| (o.name.clone(), o.body.clone())).collect();
                    let cur = (r.dirs, r.modules, by_src);
                    match &first {
                        None => first = Some(cur),
                        Some(f) if *f == cur => {}
                        Some(_) => {
                            return node("violation", vec![atom("order-dependent"), sources_sexp(&perms[0]), sources_sexp(p)]);
                        }
                    }
                }
                node("ok", vec![atom(perms.len().to_string())])
            }
            "c18-cli" | "c18-cli6" => {
                let mut rng = Rng::fork(srcs.len() as u64, "c18-cli", layout.dirs.len() as u64);
                let mut perms = sample_perms(&srcs, &mut rng);
                // the order the preflight ran with (sorted) is one of the orders compared: that run is shared
                let mut sorted = srcs.clone();
                sorted.sort();
                if sorted.windows(2).all(|w| w[0] != w[1]) && !perms.contains(&sorted) {
                    perms.push(sorted.clone());
                }
                if tag == "c18-cli6" && perms.len() > 6 {
                    // the given order, its reverse, the sorted one, and three more spread over the enumeration
                    let n = perms.len();
                    let mut pick: Vec<usize> = vec![0, if n >= 2 && perms[1] == srcs.iter().rev().cloned().collect::<Vec<_>>() { 1 } else { n - 1 }];
                    if let Some(k) = perms.iter().position(|p| *p == sorted) {
                        pick.push(k);
                    }
                    for k in [n / 5, 2 * n / 5, 3 * n / 5, 4 * n / 5, n - 1] {
                        if pick.len() < 6 && !pick.contains(&k) {
                            pick.push(k);
                        }
                    }
                    perms = pick.into_iter().map(|i| perms[i].clone()).collect();
                }
                let first = self.run_cli_cached(&layout, &perms[0], &[]);
                if first.0 != 0 && first.0 != 1 {
                    return node("violation", vec![atom("cli-exit-status"), atom(first.0.to_string())]);
                }
                for p in &perms[1..] {
                    let cur = self.run_cli_cached(&layout, p, &[]);
                    if cur != first {
                        let files = |r: &(i32, BTreeMap<String, String>)| {
                            let mut v = vec![atom(format!("exit{}", r.0))];
                            v.extend(r.1.keys().map(|k| st(k.clone())));
                            list(v)
                        };
                        return node(
                            "violation",
                            vec![atom("cli-order-dependent"), sources_sexp(&perms[0]), files(&first), sources_sexp(p), files(&cur)],
                        );
                    }
                }
                node("ok", vec![atom(perms.len().to_string())])
            }
            "c18-cliout" => {
                let (code, written) = self.run_cli_cached(&layout, &srcs, &[]);
                node(
                    "cli",
                    vec![node("exit", vec![atom(code.to_string())]), node("written", written.keys().map(|k| st(k.clone())).collect())],
                )
            }
            "c18-exact" => {
                // every accepted output: each custom class once; header by the file-name rule; `extends` is the
                // root type written in a `<class>.qml` the document can see; every non-Qt type used is listed
                let r = match self.run_real(&layout, &srcs) {
                    Ok(r) => r,
                    Err(e) => return node("violation", vec![e]),
                };
                let m = Materialised::new(&layout);
                let mut checked = 0usize;
                for ((p, s), o) in srcs.iter().zip(&r.outputs) {
                    if !o.accepted {
                        continue;
                    }
                    let rp = m.rel_of(&m.dir(p)).unwrap_or_else(|| p.clone());
                    let d = layout.dirs.iter().find(|d| d.path == rp).unwrap();
                    let f = d.files.iter().find(|f| &f.stem == s).unwrap();
                    // directories the document sees: its own and the string imports that are directories
                    let mut visible: Vec<Vec<String>> = vec![rp.clone()];
                    for i in live(&f.imports) {
                        if let Import::Dir(segs) = i {
                            let target = m.dir(p).join(segs.join("/"));
                            if target.is_dir() {
                                if let Some(rel) = m.rel_of(&target) {
                                    visible.push(rel);
                                }
                            }
                        }
                    }
                    let mut seen = BTreeSet::new();
                    for (class, extends, header) in &o.customs {
                        checked += 1;
                        if !seen.insert(class.clone()) {
                            return node("violation", vec![atom("listed-twice"), st(o.name.clone()), st(class.clone())]);
                        }
                        if *header != format!("{}.h", class.to_ascii_lowercase()) {
                            return node("violation", vec![atom("header"), st(o.name.clone()), st(header.clone())]);
                        }
                        let roots: Vec<&str> = visible
                            .iter()
                            .filter_map(|v| layout.dirs.iter().find(|d| &d.path == v))
                            .flat_map(|d| d.files.iter().filter(|f| f.has_root && &f.stem == class).map(|f| f.root.ty.as_str()))
                            .collect();
                        if !roots.contains(&extends.as_str()) {
                            return node("violation", vec![atom("extends"), st(o.name.clone()), st(class.clone()), st(extends.clone())]);
                        }
                    }
                    for used in std::iter::once(&f.root).chain(&f.children) {
                        if !is_table_class(&used.ty) && !seen.contains(&used.ty) {
                            return node("violation", vec![atom("not-listed"), st(o.name.clone()), st(used.ty.clone())]);
                        }
                    }
                }
                node("ok", vec![atom(checked.to_string())])
            }
            _ => node("bad-request", vec![]),
        }
    }
}
