//! C18 — QML components in directories resolve as custom widgets, in any order.
//!
//! A case is a directory layout of generated `.qml` files plus an ordered list of sources:
//!
//!   (c18 (qt ("QWidget" true ("windowTitle" …)) …)
//!        (tree (dir ("a" "b") (file "X" true (imports (named "qmluic.QtWidgets") (dir ".." "sib")) (root "QWidget" _)
//!                                    (children ("A" _) ("QLabel" "text"))) …) …)
//!        (sources (("a" "b") "X") …))
//!
//! The layout is materialised under `std::env::temp_dir()` (removed afterwards), then — exactly like
//! `generate-ui` / `tests/common::translate_file` — one `TypeMap` + `UiDocumentsCache` is filled by
//! `qmldir::populate_directories` for ALL sources in the given order and every source is translated with
//! `uigen::build`.  Answer:
//!
//!   (c18 (dirs "" "a" "a/b" …)                                      ; directory modules in the type map
//!        (modules ("a/b" ("X" (ok "QWidget")) ("Y" (err "…"))) …)  ; components and their resolved super class
//!        (outputs ("a/b/X.qml" (accepted b) (built b) (diags "…"…) (widgets (class prop…)…)
//!                  (customwidgets (class extends header)…)) …))
//!
//! kinds: `c18` = model (one case per permutation of the sources), `spec-c18-dirs` = spec (reachability),
//! `c18-perms` / `c18-exact` / `c18-reach` = oracles evaluated here on the real outputs.
//! `c18-cli` (oracle) and `c18-cliout` (model) run the real `qmluic generate-ui` BINARY built from /repo's
//! current working tree (`crate::env::cli_binary()`, `$QV_QMLUIC_BIN` overrides) in a fresh copy of the layout:
//! `c18-cli`: exit status and the set + content of the written `.ui` files are the same for every order of the
//! source arguments (≤ 6 orders per generated layout; all orders in the corpus); `c18-cliout`: exit status and
//! written files equal the Lean model's `cliRun` over the per-source outcomes — answer
//!   (cli (exit 0|1) (written "a/x.ui" …)).
use crate::env::{self, Mode};
use crate::rng::Rng;
use crate::sexp::{atom, boolean, list, node, st, Sexp};
use crate::xml;
use crate::{Case, Stream};
use camino::Utf8PathBuf;
use qmluic::diagnostic::ProjectDiagnostics;
use qmluic::metatype;
use qmluic::metatype_tweak;
use qmluic::qmldir;
use qmluic::qmldoc::UiDocumentsCache;
use qmluic::typemap::{ModuleData, ModuleId, NamedType, TypeMap, TypeSpace};
use std::collections::{BTreeMap, BTreeSet};
use std::fs;
use std::sync::atomic::{AtomicU64, Ordering};

const QT_MODULE: &str = "qmluic.QtWidgets";
/// Qt classes a generated file may name (all are plain widgets except QObject)
const QT_CLASSES: [&str; 8] = ["QWidget", "QDialog", "QLabel", "QPushButton", "QFrame", "QGroupBox", "QLineEdit", "QObject"];
/// candidate bindings: property name and a constant of its type
const PROPS: [(&str, &str); 9] = [
    ("windowTitle", "\"t\""),
    ("toolTip", "\"tip\""),
    ("enabled", "false"),
    ("text", "\"x\""),
    ("title", "\"g\""),
    ("flat", "true"),
    ("lineWidth", "2"),
    ("checkable", "true"),
    ("sizeGripEnabled", "true"),
];
const STEMS: [&str; 12] = ["A", "B", "C", "D", "E", "MyBox", "Panel", "SettingsForm", "QFrame", "Main", "Zed", "Item2"];
const DIR_NAMES: [&str; 7] = ["a", "b", "common", "sub", "ui", "Deep", "x1"];

static COUNTER: AtomicU64 = AtomicU64::new(0);

pub struct C18 {
    classes: Vec<metatype::Class>,
    qt: Vec<(String, bool, Vec<String>)>,
}

impl C18 {
    pub fn new() -> Self {
        let mut classes = env::load_qt_classes();
        metatype_tweak::apply_all(&mut classes);
        let mut me = C18 { classes, qt: vec![] };
        // the Qt side of the model is MEASURED on the real type map
        let tm = me.fresh_type_map();
        let module = tm.get_module(ModuleId::Named(QT_MODULE)).unwrap();
        let class_of = |n: &str| match module.get_type(n) {
            Some(Ok(NamedType::Class(c))) => c,
            other => panic!("Qt class {n} not found: {other:?}"),
        };
        let widget = class_of("QWidget");
        me.qt = QT_CLASSES
            .iter()
            .map(|n| {
                let c = class_of(n);
                let props = PROPS
                    .iter()
                    .filter(|(p, _)| match c.get_property(p) {
                        // the model only knows "found": every candidate must be writable where it exists
                        Some(Ok(d)) => {
                            assert!(d.is_writable(), "candidate property {p} of {n} is not writable");
                            true
                        }
                        Some(Err(e)) => panic!("property {p} of {n}: {e}"),
                        None => false,
                    })
                    .map(|(p, _)| p.to_string())
                    .collect();
                (n.to_string(), c.is_derived_from(&widget), props)
            })
            .collect();
        drop(module);
        drop(tm);
        me
    }

    fn fresh_type_map(&self) -> TypeMap {
        let mut type_map = TypeMap::with_primitive_types();
        let mut md = ModuleData::with_builtins();
        md.extend(self.classes.clone());
        type_map.insert_module(ModuleId::Named(QT_MODULE), md);
        type_map
    }

    fn qt_sexp(&self) -> Sexp {
        node(
            "qt",
            self.qt
                .iter()
                .map(|(n, w, ps)| list(vec![st(n.clone()), boolean(*w), list(ps.iter().map(|p| st(p.clone())).collect())]))
                .collect(),
        )
    }
}

// ---------------------------------------------------------------------------------------------
// layouts

#[derive(Clone, Debug, PartialEq)]
enum Import {
    Named(String),
    Dir(Vec<String>),
}

#[derive(Clone, Debug)]
struct Obj {
    ty: String,
    prop: Option<String>,
}

#[derive(Clone, Debug)]
struct QmlFile {
    stem: String,
    has_root: bool,
    imports: Vec<Import>,
    root: Obj,
    children: Vec<Obj>,
}

#[derive(Clone, Debug)]
struct Dir {
    path: Vec<String>,
    files: Vec<QmlFile>,
}

#[derive(Clone, Debug)]
struct Layout {
    dirs: Vec<Dir>,
}

type Source = (Vec<String>, String);

fn path_sexp(p: &[String]) -> Sexp {
    list(p.iter().map(|s| st(s.clone())).collect())
}

fn obj_fields(o: &Obj) -> Vec<Sexp> {
    vec![st(o.ty.clone()), o.prop.as_ref().map(|p| st(p.clone())).unwrap_or(atom("_"))]
}

impl Layout {
    fn to_sexp(&self) -> Sexp {
        node(
            "tree",
            self.dirs
                .iter()
                .map(|d| {
                    let mut v = vec![path_sexp(&d.path)];
                    for f in &d.files {
                        let imps = f
                            .imports
                            .iter()
                            .map(|i| match i {
                                Import::Named(n) => node("named", vec![st(n.clone())]),
                                Import::Dir(segs) => node("dir", segs.iter().map(|s| st(s.clone())).collect()),
                            })
                            .collect();
                        v.push(node(
                            "file",
                            vec![
                                st(f.stem.clone()),
                                boolean(f.has_root),
                                node("imports", imps),
                                node("root", obj_fields(&f.root)),
                                node("children", f.children.iter().map(|o| list(obj_fields(o))).collect()),
                            ],
                        ));
                    }
                    node("dir", v)
                })
                .collect(),
        )
    }

    fn from_sexp(s: &Sexp) -> Option<Layout> {
        let (tag, ds) = s.as_node()?;
        if tag != "tree" {
            return None;
        }
        let strs = |x: &Sexp| -> Option<Vec<String>> { x.as_list()?.iter().map(|s| s.as_str().map(str::to_owned)).collect() };
        let obj = |x: &[Sexp]| -> Option<Obj> {
            Some(Obj { ty: x.first()?.as_str()?.to_owned(), prop: x.get(1)?.as_str().map(str::to_owned) })
        };
        let mut dirs = vec![];
        for d in ds {
            let (_, a) = d.as_node()?;
            let path = strs(a.first()?)?;
            let mut files = vec![];
            for f in &a[1..] {
                let (_, fa) = f.as_node()?;
                let mut imports = vec![];
                for i in fa[2].as_node()?.1 {
                    let (k, ia) = i.as_node()?;
                    imports.push(match k {
                        "named" => Import::Named(ia[0].as_str()?.to_owned()),
                        _ => Import::Dir(ia.iter().map(|s| s.as_str().map(str::to_owned)).collect::<Option<_>>()?),
                    });
                }
                let children = fa[4].as_node()?.1.iter().map(|o| obj(o.as_list()?)).collect::<Option<_>>()?;
                files.push(QmlFile {
                    stem: fa[0].as_str()?.to_owned(),
                    has_root: fa[1].as_bool()?,
                    imports,
                    root: obj(fa[3].as_node()?.1)?,
                    children,
                });
            }
            dirs.push(Dir { path, files });
        }
        Some(Layout { dirs })
    }

    fn is_dir(&self, p: &[String]) -> bool {
        self.dirs.iter().any(|d| d.path == p)
    }

    /// generator-side guard: `..` above the root of the layout (the model refuses such inputs)
    fn escapes(&self, base: &[String], segs: &[String]) -> bool {
        let mut p = base.to_vec();
        for s in segs {
            match s.as_str() {
                "." | "" => {}
                ".." => {
                    if p.is_empty() {
                        return true;
                    }
                    p.pop();
                }
                n => {
                    p.push(n.to_owned());
                    if !self.is_dir(&p) {
                        return false;
                    }
                }
            }
        }
        false
    }
}

fn qml_text(f: &QmlFile) -> String {
    let mut s = String::new();
    for i in &f.imports {
        match i {
            Import::Named(n) => s.push_str(&format!("import {n}\n")),
            Import::Dir(segs) => s.push_str(&format!("import \"{}\"\n", segs.join("/"))),
        }
    }
    if !f.has_root {
        return s;
    }
    let binding = |o: &Obj| -> String {
        match &o.prop {
            Some(p) => {
                let v = PROPS.iter().find(|(n, _)| n == p).map(|(_, v)| *v).unwrap_or("0");
                format!(" {p}: {v} ")
            }
            None => String::new(),
        }
    };
    s.push_str(&format!("\n{} {{\n", f.root.ty));
    if f.root.prop.is_some() {
        s.push_str(&format!("   {}\n", binding(&f.root)));
    }
    for c in &f.children {
        s.push_str(&format!("    {} {{{}}}\n", c.ty, binding(c)));
    }
    s.push_str("}\n");
    s
}

fn relative(from: &[String], to: &[String]) -> Vec<String> {
    let common = from.iter().zip(to).take_while(|(a, b)| a == b).count();
    let mut v: Vec<String> = (common..from.len()).map(|_| "..".to_owned()).collect();
    v.extend(to[common..].iter().cloned());
    if v.is_empty() {
        v.push(".".to_owned());
    }
    v
}

fn gen_layout(rng: &mut Rng) -> (Layout, Vec<String>) {
    let mut labels = vec![];
    // directories: the root (always a directory, seldom with files) and 1..=5 more, parent-closed
    let n_dirs = 1 + rng.below(5);
    let mut paths: Vec<Vec<String>> = vec![vec![]];
    while paths.len() < n_dirs + 1 {
        let parent = rng.pick(&paths).clone();
        if parent.len() >= 3 {
            continue;
        }
        let mut p = parent;
        p.push((*rng.pick(&DIR_NAMES)).to_owned());
        if !paths.contains(&p) {
            paths.push(p);
        }
    }
    let mut all_stems: Vec<String> = vec![];
    let mut dirs: Vec<Dir> = paths
        .iter()
        .map(|p| {
            let n_files = if p.is_empty() {
                if rng.chance(1, 3) { 1 + rng.below(3) } else { 0 }
            } else if rng.chance(1, 12) {
                0
            } else {
                1 + rng.below(6)
            };
            let mut stems: Vec<String> = vec![];
            while stems.len() < n_files {
                let s = (*rng.pick(&STEMS)).to_owned();
                if !stems.contains(&s) {
                    stems.push(s);
                }
            }
            all_stems.extend(stems.iter().cloned());
            Dir {
                path: p.clone(),
                files: stems
                    .into_iter()
                    .map(|stem| QmlFile { stem, has_root: true, imports: vec![], root: Obj { ty: String::new(), prop: None }, children: vec![] })
                    .collect(),
            }
        })
        .collect();
    if all_stems.is_empty() {
        all_stems.push("A".to_owned());
    }
    let layout_dirs = Layout { dirs: dirs.clone() };
    // half of the layouts are "clean": imports lead to existing directories, types are Qt widgets or components
    // the file can see, bindings are QWidget properties — so that many documents are accepted
    let clean = rng.chance(1, 2);
    labels.push(if clean { "clean" } else { "noisy" }.to_owned());
    let gen_type = |rng: &mut Rng, pool: &[String]| -> String {
        if clean {
            return if pool.is_empty() || rng.chance(1, 2) { (*rng.pick(&QT_CLASSES[..7])).to_owned() } else { rng.pick(pool).clone() };
        }
        match rng.below(20) {
            0..=8 => (*rng.pick(&QT_CLASSES[..7])).to_owned(),
            9..=17 => rng.pick(pool).clone(),
            18 => "Missing".to_owned(),
            _ => "QObject".to_owned(),
        }
    };
    let gen_prop = |rng: &mut Rng| -> Option<String> {
        match rng.below(10) {
            0..=4 => None,
            5..=7 => Some((*rng.pick(&PROPS[..3])).0.to_owned()),
            _ if clean => Some((*rng.pick(&PROPS[..3])).0.to_owned()),
            _ => Some(rng.pick(&PROPS).0.to_owned()),
        }
    };
    let stems_of: Vec<(Vec<String>, Vec<String>)> =
        dirs.iter().map(|d| (d.path.clone(), d.files.iter().map(|f| f.stem.clone()).collect())).collect();
    for d in dirs.iter_mut() {
        let base = d.path.clone();
        for f in d.files.iter_mut() {
            f.has_root = !rng.chance(1, if clean { 60 } else { 25 });
            let mut imports = vec![];
            let mut visible: Vec<Vec<String>> = vec![base.clone()];
            let n_imp = rng.below(4);
            for _ in 0..n_imp {
                let segs: Vec<String> = match if clean { 3 + rng.below(5) } else { rng.below(12) } {
                    0 => vec![".".into()],
                    1 => vec!["..".into()],
                    2 => vec!["..".into(), (*rng.pick(&DIR_NAMES)).into()],
                    3..=7 => {
                        let target = rng.pick(&paths).clone();
                        visible.push(target.clone());
                        relative(&base, &target)
                    }
                    8 => vec!["nope".into()],
                    9 => vec!["missing".into(), "..".into(), (*rng.pick(&DIR_NAMES)).into()],
                    10 => {
                        // a file name, a trailing slash, or a trailing "."
                        match rng.below(3) {
                            0 => vec![format!("{}.qml", rng.pick(&all_stems))],
                            1 => {
                                let mut v = relative(&base, &rng.pick(&paths).clone());
                                v.push(String::new());
                                v
                            }
                            _ => {
                                let mut v = relative(&base, &rng.pick(&paths).clone());
                                v.push(".".into());
                                v
                            }
                        }
                    }
                    _ => {
                        let mut v = relative(&base, &rng.pick(&paths).clone());
                        v.push((*rng.pick(&DIR_NAMES)).into());
                        v
                    }
                };
                if !layout_dirs.escapes(&base, &segs) {
                    imports.push(Import::Dir(segs));
                }
            }
            if !clean && rng.chance(1, 25) {
                imports.push(Import::Named("Unknown.Module".into()));
            }
            if clean || rng.chance(9, 10) {
                let at = if clean || rng.chance(3, 4) { 0 } else { rng.below(imports.len() + 1) };
                imports.insert(at, Import::Named(QT_MODULE.into()));
            }
            f.imports = imports;
            let pool: Vec<String> = if clean {
                stems_of.iter().filter(|(p, _)| visible.contains(p)).flat_map(|(_, s)| s.iter().cloned()).collect()
            } else {
                all_stems.clone()
            };
            f.root = Obj { ty: gen_type(rng, &pool), prop: gen_prop(rng) };
            let n_children = rng.below(5);
            f.children = (0..n_children).map(|_| Obj { ty: gen_type(rng, &pool), prop: gen_prop(rng) }).collect();
        }
    }
    // planted structure: mutually importing directories, mutually inheriting / self-inheriting components
    let with_files: Vec<usize> = (0..dirs.len()).filter(|&i| !dirs[i].files.is_empty()).collect();
    if with_files.len() >= 2 && rng.chance(1, 2) {
        let i = *rng.pick(&with_files);
        let j = *rng.pick(&with_files);
        if i != j {
            let (pi, pj) = (dirs[i].path.clone(), dirs[j].path.clone());
            let fi = rng.below(dirs[i].files.len());
            dirs[i].files[fi].imports.push(Import::Dir(relative(&pi, &pj)));
            let fj = rng.below(dirs[j].files.len());
            dirs[j].files[fj].imports.push(Import::Dir(relative(&pj, &pi)));
            labels.push("mutual-import".to_owned());
            if rng.chance(1, 2) {
                // … and components inheriting from each other across the two directories
                let (si, sj) = (dirs[i].files[fi].stem.clone(), dirs[j].files[fj].stem.clone());
                dirs[i].files[fi].root.ty = sj;
                dirs[j].files[fj].root.ty = si;
                labels.push("mutual-inherit-across".to_owned());
            }
        }
    }
    if !with_files.is_empty() && rng.chance(1, 3) {
        let i = *rng.pick(&with_files);
        if dirs[i].files.len() >= 2 {
            let (s0, s1) = (dirs[i].files[0].stem.clone(), dirs[i].files[1].stem.clone());
            dirs[i].files[0].root.ty = s1;
            dirs[i].files[1].root.ty = s0;
            labels.push("mutual-inherit".to_owned());
        }
    }
    if !with_files.is_empty() && rng.chance(1, 5) {
        let i = *rng.pick(&with_files);
        let k = rng.below(dirs[i].files.len());
        dirs[i].files[k].root.ty = dirs[i].files[k].stem.clone();
        labels.push("self-inherit".to_owned());
    }
    labels.push(format!("dirs{}", dirs.iter().filter(|d| !d.files.is_empty()).count()));
    (Layout { dirs }, labels)
}

fn permutations<T: Clone>(xs: &[T]) -> Vec<Vec<T>> {
    if xs.len() <= 1 {
        return vec![xs.to_vec()];
    }
    let mut out = vec![];
    for i in 0..xs.len() {
        let mut rest = xs.to_vec();
        let x = rest.remove(i);
        for mut p in permutations(&rest) {
            p.insert(0, x.clone());
            out.push(p);
        }
    }
    out
}

fn sources_sexp(srcs: &[Source]) -> Sexp {
    node("sources", srcs.iter().map(|(p, s)| list(vec![path_sexp(p), st(s.clone())])).collect())
}

fn parse_sources(s: &Sexp) -> Option<Vec<Source>> {
    let (_, a) = s.as_node()?;
    a.iter()
        .map(|x| {
            let l = x.as_list()?;
            let p = l[0].as_list()?.iter().map(|s| s.as_str().map(str::to_owned)).collect::<Option<Vec<_>>>()?;
            Some((p, l[1].as_str()?.to_owned()))
        })
        .collect()
}

// ---------------------------------------------------------------------------------------------
// running the real code

/// Temp directory holding one materialised layout; removed on drop (also when the code under test panics).
struct Materialised {
    top: Utf8PathBuf,
    /// canonical path of the layout's root directory
    root: Utf8PathBuf,
}

impl Materialised {
    fn new(layout: &Layout) -> Self {
        let n = COUNTER.fetch_add(1, Ordering::Relaxed);
        let top = std::env::temp_dir().join(format!("qv-c18-{}-{}", std::process::id(), n));
        let _ = fs::remove_dir_all(&top);
        // two levels of our own above the layout's root, so nothing of the machine is ever scanned
        let root = top.join("o").join("r");
        fs::create_dir_all(&root).unwrap();
        let top = Utf8PathBuf::from_path_buf(top.canonicalize().unwrap()).unwrap();
        let root = Utf8PathBuf::from_path_buf(root.canonicalize().unwrap()).unwrap();
        assert!(!root.starts_with("/repo") && !root.starts_with("/verif"));
        for d in &layout.dirs {
            let dp = d.path.iter().fold(root.clone(), |p, s| p.join(s));
            fs::create_dir_all(&dp).unwrap();
            for f in &d.files {
                fs::write(dp.join(format!("{}.qml", f.stem)), qml_text(f)).unwrap();
            }
        }
        Materialised { top, root }
    }

    fn dir(&self, p: &[String]) -> Utf8PathBuf {
        p.iter().fold(self.root.clone(), |a, s| a.join(s))
    }
}

impl Drop for Materialised {
    fn drop(&mut self) {
        let _ = fs::remove_dir_all(&self.top);
    }
}

#[derive(Clone, Debug, PartialEq, Eq)]
struct SrcOut {
    name: String,
    body: Vec<Sexp>,
    accepted: bool,
    customs: Vec<(String, String, String)>,
}

#[derive(Clone, Debug, PartialEq, Eq)]
struct RunOut {
    dirs: Vec<String>,
    modules: Vec<Sexp>,
    outputs: Vec<SrcOut>,
}

fn rel_name(p: &[String]) -> String {
    p.join("/")
}

impl C18 {
    fn run_real(&self, layout: &Layout, srcs: &[Source]) -> Result<RunOut, Sexp> {
        let m = Materialised::new(layout);
        let root_str = m.root.as_str().to_owned();
        let strip = |s: &str| s.replace(&root_str, "");
        let mut tm = self.fresh_type_map();
        let mut cache = UiDocumentsCache::new();
        let mut pd = ProjectDiagnostics::new();
        let src_paths: Vec<Utf8PathBuf> = srcs.iter().map(|(p, s)| m.dir(p).join(format!("{s}.qml"))).collect();
        if let Err(e) = qmldir::populate_directories(&mut tm, &mut cache, &src_paths, &mut pd) {
            return Err(node("populate-error", vec![st(strip(&e.to_string()))]));
        }
        // nothing above the layout's root may have been touched
        for up in [m.root.parent().unwrap(), m.top.as_path(), m.top.parent().unwrap()] {
            if tm.contains_module(ModuleId::Directory(up)) {
                return Err(node("escaped-root", vec![]));
            }
        }
        let mut dirs = vec![];
        let mut modules = vec![];
        let mut sorted_dirs: Vec<&Dir> = layout.dirs.iter().collect();
        sorted_dirs.sort_by_key(|d| rel_name(&d.path));
        for d in sorted_dirs {
            let abs = m.dir(&d.path);
            let Some(ns) = tm.get_module(ModuleId::Directory(&abs)) else { continue };
            dirs.push(rel_name(&d.path));
            let stems: BTreeSet<&str> = d.files.iter().map(|f| f.stem.as_str()).collect();
            let mut v = vec![st(rel_name(&d.path))];
            for stem in stems {
                match ns.get_type(stem) {
                    None => {}
                    Some(Ok(NamedType::QmlComponent(c))) => {
                        let sup = match c.as_class().public_super_classes().next() {
                            Some(Ok(s)) => node("ok", vec![st(s.qualified_cxx_name().into_owned())]),
                            Some(Err(e)) => node("err", vec![st(strip(&e.to_string()))]),
                            None => node("no-super", vec![]),
                        };
                        v.push(list(vec![st(stem), sup]));
                    }
                    Some(other) => v.push(list(vec![st(stem), node("unexpected", vec![st(format!("{other:?}"))])])),
                }
            }
            modules.push(list(v));
        }
        let mut outputs = vec![];
        for ((p, s), path) in srcs.iter().zip(&src_paths) {
            let name = if p.is_empty() { format!("{s}.qml") } else { format!("{}/{s}.qml", rel_name(p)) };
            // like generate_ui_file: the document populate_directories has read
            let Some(doc) = cache.get(path) else {
                outputs.push(SrcOut { name, body: vec![atom("not-loaded")], accepted: false, customs: vec![] });
                continue;
            };
            let t = env::translate_doc(&tm, doc, Mode::Generate);
            if t.syntax_errors > 0 {
                outputs.push(SrcOut { name, body: vec![atom("syntax-error")], accepted: false, customs: vec![] });
                continue;
            }
            let mut msgs: Vec<String> = t.diags.iter().map(|d| strip(&d.message)).collect();
            msgs.sort();
            let mut widgets = vec![];
            let mut customs = vec![];
            if let Some(ui) = &t.ui {
                let ui = xml::strip_indent(&xml::parse(ui).expect("well-formed ui"));
                let widget = |e: &xml::Element| -> Sexp {
                    let mut v = vec![st(e.attr("class").unwrap_or("?"))];
                    v.extend(e.children_named("property").map(|p| st(p.attr("name").unwrap_or("?"))));
                    list(v)
                };
                if let Some(rw) = ui.child("widget") {
                    widgets.push(widget(rw));
                    widgets.extend(rw.children_named("widget").map(widget));
                }
                if let Some(cw) = ui.child("customwidgets") {
                    for c in cw.children_named("customwidget") {
                        let g = |n: &str| c.child(n).map(|e| e.text()).unwrap_or_default();
                        customs.push((g("class"), g("extends"), g("header")));
                    }
                }
            }
            let body = vec![
                node("accepted", vec![boolean(t.accepted())]),
                node("built", vec![boolean(t.built)]),
                node("diags", msgs.into_iter().map(st).collect()),
                node("widgets", widgets),
                node(
                    "customwidgets",
                    customs.iter().map(|(a, b, c)| list(vec![st(a.clone()), st(b.clone()), st(c.clone())])).collect(),
                ),
            ];
            outputs.push(SrcOut { name, body, accepted: t.accepted(), customs });
        }
        Ok(RunOut { dirs, modules, outputs })
    }

    /// Independent reachability on the REAL file system (oracle for the discovered directory set).
    fn reach_real(&self, layout: &Layout, srcs: &[Source]) -> Vec<String> {
        let m = Materialised::new(layout);
        let mut seen: BTreeSet<Utf8PathBuf> = BTreeSet::new();
        let mut todo: Vec<Utf8PathBuf> = srcs.iter().map(|(p, _)| m.dir(p)).collect();
        while let Some(d) = todo.pop() {
            if !seen.insert(d.clone()) {
                continue;
            }
            let rel: Vec<String> =
                d.strip_prefix(&m.root).unwrap().components().map(|c| c.as_str().to_owned()).collect();
            let Some(ld) = layout.dirs.iter().find(|x| x.path == rel) else { continue };
            for f in ld.files.iter().filter(|f| f.has_root) {
                for i in &f.imports {
                    if let Import::Dir(segs) = i {
                        let target = d.join(segs.join("/"));
                        if target.is_dir() {
                            todo.push(target.canonicalize_utf8().unwrap());
                        }
                    }
                }
            }
        }
        let mut v: Vec<String> = seen.iter().map(|d| d.strip_prefix(&m.root).map(|r| r.as_str().to_owned()).unwrap_or("<outside>".into())).collect();
        v.sort();
        v
    }
}

/// One CLI run in a fresh copy of the layout: (exit status, written .ui files with their content).
fn run_cli(bin: &std::path::Path, layout: &Layout, srcs: &[Source]) -> (i32, BTreeMap<String, String>) {
    let m = Materialised::new(layout);
    let args: Vec<String> =
        srcs.iter().map(|(p, s)| if p.is_empty() { format!("{s}.qml") } else { format!("{}/{s}.qml", rel_name(p)) }).collect();
    let out = std::process::Command::new(bin)
        .current_dir(&m.root)
        .env("NO_COLOR", "")
        .arg("generate-ui")
        .arg("--foreign-types")
        .arg(format!("{}/contrib/metatypes", env::REPO))
        .args(&args)
        .output()
        .expect("qmluic binary runs");
    let mut written = BTreeMap::new();
    for d in &layout.dirs {
        let dp = m.dir(&d.path);
        for e in fs::read_dir(&dp).unwrap().flatten() {
            let name = e.file_name().to_string_lossy().into_owned();
            if name.ends_with(".ui") {
                let rel = if d.path.is_empty() { name.clone() } else { format!("{}/{name}", rel_name(&d.path)) };
                written.insert(rel, fs::read_to_string(e.path()).unwrap_or_default());
            }
        }
    }
    (out.status.code().unwrap_or(-1), written)
}

fn run_out_sexp(r: &RunOut) -> Sexp {
    node(
        "c18",
        vec![
            node("dirs", r.dirs.iter().map(|d| st(d.clone())).collect()),
            node("modules", r.modules.clone()),
            node(
                "outputs",
                r.outputs
                    .iter()
                    .map(|o| {
                        let mut v = vec![st(o.name.clone())];
                        v.extend(o.body.iter().cloned());
                        list(v)
                    })
                    .collect(),
            ),
        ],
    )
}

fn sample_perms(srcs: &[Source], rng: &mut Rng) -> Vec<Vec<Source>> {
    if srcs.len() <= 4 {
        permutations(srcs)
    } else {
        let mut v = vec![srcs.to_vec(), srcs.iter().rev().cloned().collect()];
        for _ in 0..6 {
            let mut p = srcs.to_vec();
            rng.shuffle(&mut p);
            if !v.contains(&p) {
                v.push(p);
            }
        }
        v
    }
}

impl Stream for C18 {
    fn generate(&self, seed: u64, thorough: bool) -> Vec<Case> {
        let mut rng = Rng::fork(seed, "c18", 0);
        let n_layouts = if thorough { 3_000 } else { 500 };
        let mut cases = vec![];
        let qt = self.qt_sexp();
        for _ in 0..n_layouts {
            let (layout, mut labels) = gen_layout(&mut rng);
            let candidates: Vec<Source> = layout
                .dirs
                .iter()
                .flat_map(|d| d.files.iter().filter(|f| f.has_root).map(|f| (d.path.clone(), f.stem.clone())))
                .collect();
            if candidates.is_empty() {
                continue;
            }
            let n_src = (1 + rng.below(5)).min(candidates.len());
            let mut pool = candidates.clone();
            rng.shuffle(&mut pool);
            let srcs: Vec<Source> = pool.into_iter().take(n_src).collect();
            labels.push(format!("sources{n_src}"));
            let tree = layout.to_sexp();
            let perms = sample_perms(&srcs, &mut rng);
            for p in &perms {
                cases.push(Case {
                    kind: "model",
                    labels: labels.clone(),
                    request: node("c18", vec![qt.clone(), tree.clone(), sources_sexp(p)]),
                });
            }
            let args = vec![qt.clone(), tree.clone(), sources_sexp(&srcs)];
            cases.push(Case { kind: "spec", labels: labels.clone(), request: node("spec-c18-dirs", args.clone()) });
            cases.push(Case { kind: "oracle", labels: labels.clone(), request: node("c18-perms", args.clone()) });
            cases.push(Case { kind: "oracle", labels: labels.clone(), request: node("c18-exact", args.clone()) });
            cases.push(Case { kind: "oracle", labels: labels.clone(), request: node("c18-reach", args.clone()) });
            // the real binary: order independence (≤ 6 orders) and, for two orders, the model of the loop
            cases.push(Case { kind: "oracle", labels: labels.clone(), request: node("c18-cli6", args.clone()) });
            cases.push(Case { kind: "model", labels: labels.clone(), request: node("c18-cliout", args) });
            let rev: Vec<Source> = srcs.iter().rev().cloned().collect();
            cases.push(Case { kind: "model", labels, request: node("c18-cliout", vec![qt.clone(), tree.clone(), sources_sexp(&rev)]) });
        }
        cases
    }

    fn answer(&self, req: &Sexp) -> Sexp {
        let (tag, args) = req.as_node().expect("request node");
        if args.len() != 3 {
            return node("bad-request", vec![]);
        }
        let Some(layout) = Layout::from_sexp(&args[1]) else { return node("bad-request", vec![]) };
        let Some(srcs) = parse_sources(&args[2]) else { return node("bad-request", vec![]) };
        match tag {
            "c18" => match self.run_real(&layout, &srcs) {
                Ok(r) => run_out_sexp(&r),
                Err(e) => e,
            },
            "spec-c18-dirs" => match self.run_real(&layout, &srcs) {
                Ok(r) => node("dirs", r.dirs.iter().map(|d| st(d.clone())).collect()),
                Err(e) => e,
            },
            "c18-reach" => {
                let want = self.reach_real(&layout, &srcs);
                match self.run_real(&layout, &srcs) {
                    Ok(r) if r.dirs == want => node("ok", vec![atom(want.len().to_string())]),
                    Ok(r) => node(
                        "violation",
                        vec![
                            atom("discovered-differs-from-reachable"),
                            node("discovered", r.dirs.iter().map(|d| st(d.clone())).collect()),
                            node("reachable", want.iter().map(|d| st(d.clone())).collect()),
                        ],
                    ),
                    Err(e) => node("violation", vec![e]),
                }
            }
            "c18-perms" => {
                // the answer for every source, the module table and the directory set must not depend on the order
                let mut rng = Rng::fork(srcs.len() as u64, "c18-perms", layout.dirs.len() as u64);
                let perms = sample_perms(&srcs, &mut rng);
                let mut first: Option<(Vec<String>, Vec<Sexp>, BTreeMap<String, Vec<Sexp>>)> = None;
                for p in &perms {
                    let r = match self.run_real(&layout, p) {
                        Ok(r) => r,
                        Err(e) => return node("violation", vec![e]),
                    };
                    let by_src: BTreeMap<String, Vec<Sexp>> = r.outputs.iter().map(|o| (o.name.clone(), o.body.clone())).collect();
                    let cur = (r.dirs, r.modules, by_src);
                    match &first {
                        None => first = Some(cur),
                        Some(f) if *f == cur => {}
                        Some(_) => {
                            return node("violation", vec![atom("order-dependent"), sources_sexp(&perms[0]), sources_sexp(p)]);
                        }
                    }
                }
                node("ok", vec![atom(perms.len().to_string())])
            }
            "c18-cli" | "c18-cli6" => {
                let bin = env::cli_binary();
                let mut rng = Rng::fork(srcs.len() as u64, "c18-cli", layout.dirs.len() as u64);
                let mut perms = sample_perms(&srcs, &mut rng);
                if tag == "c18-cli6" && perms.len() > 6 {
                    // the given order, its reverse, and four more spread over the enumeration
                    let n = perms.len();
                    let pick: Vec<usize> = vec![0, n - 1, n / 5, 2 * n / 5, 3 * n / 5, 4 * n / 5];
                    perms = pick.into_iter().map(|i| perms[i].clone()).collect();
                }
                let first = run_cli(&bin, &layout, &perms[0]);
                if first.0 != 0 && first.0 != 1 {
                    return node("violation", vec![atom("cli-exit-status"), atom(first.0.to_string())]);
                }
                for p in &perms[1..] {
                    let cur = run_cli(&bin, &layout, p);
                    if cur != first {
                        let files = |r: &(i32, BTreeMap<String, String>)| {
                            let mut v = vec![atom(format!("exit{}", r.0))];
                            v.extend(r.1.keys().map(|k| st(k.clone())));
                            list(v)
                        };
                        return node(
                            "violation",
                            vec![atom("cli-order-dependent"), sources_sexp(&perms[0]), files(&first), sources_sexp(p), files(&cur)],
                        );
                    }
                }
                node("ok", vec![atom(perms.len().to_string())])
            }
            "c18-cliout" => {
                let bin = env::cli_binary();
                let (code, written) = run_cli(&bin, &layout, &srcs);
                node(
                    "cli",
                    vec![node("exit", vec![atom(code.to_string())]), node("written", written.keys().map(|k| st(k.clone())).collect())],
                )
            }
            "c18-exact" => {
                // every accepted output: each custom class once; header by the file-name rule; `extends` is the
                // root type written in a `<class>.qml` the document can see; every non-Qt type used is listed
                let r = match self.run_real(&layout, &srcs) {
                    Ok(r) => r,
                    Err(e) => return node("violation", vec![e]),
                };
                let m = Materialised::new(&layout);
                let mut checked = 0usize;
                for ((p, s), o) in srcs.iter().zip(&r.outputs) {
                    if !o.accepted {
                        continue;
                    }
                    let d = layout.dirs.iter().find(|d| &d.path == p).unwrap();
                    let f = d.files.iter().find(|f| &f.stem == s).unwrap();
                    // directories the document sees: its own and the string imports that are directories
                    let mut visible: Vec<Vec<String>> = vec![p.clone()];
                    for i in &f.imports {
                        if let Import::Dir(segs) = i {
                            let target = m.dir(p).join(segs.join("/"));
                            if target.is_dir() {
                                let c = target.canonicalize_utf8().unwrap();
                                visible.push(c.strip_prefix(&m.root).unwrap().components().map(|c| c.as_str().to_owned()).collect());
                            }
                        }
                    }
                    let mut seen = BTreeSet::new();
                    for (class, extends, header) in &o.customs {
                        checked += 1;
                        if !seen.insert(class.clone()) {
                            return node("violation", vec![atom("listed-twice"), st(o.name.clone()), st(class.clone())]);
                        }
                        if *header != format!("{}.h", class.to_ascii_lowercase()) {
                            return node("violation", vec![atom("header"), st(o.name.clone()), st(header.clone())]);
                        }
                        let roots: Vec<&str> = visible
                            .iter()
                            .filter_map(|v| layout.dirs.iter().find(|d| &d.path == v))
                            .flat_map(|d| d.files.iter().filter(|f| f.has_root && &f.stem == class).map(|f| f.root.ty.as_str()))
                            .collect();
                        if !roots.contains(&extends.as_str()) {
                            return node("violation", vec![atom("extends"), st(o.name.clone()), st(class.clone()), st(extends.clone())]);
                        }
                    }
                    for used in std::iter::once(&f.root).chain(&f.children) {
                        if !QT_CLASSES.contains(&used.ty.as_str()) && !seen.contains(&used.ty) {
                            return node("violation", vec![atom("not-listed"), st(o.name.clone()), st(used.ty.clone())]);
                        }
                    }
                }
                node("ok", vec![atom(checked.to_string())])
            }
            _ => node("bad-request", vec![]),
        }
    }
}
