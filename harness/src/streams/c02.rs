//! C02 — "dynamic bindings stay current when any property they read changes".
//!
//! A type-directed generator (own, smaller than `proggen`) emphasising reads through pointers: chains of pointer
//! properties, locals, locals assigned in different branches, ternaries selecting objects, reads in non-taken
//! branches, switch bodies, null guards, constant / read-only / notify-less / write-only properties, methods,
//! explicit and implicit `this`, derived-class objects and pointer comparisons.  Per program three cases:
//!
//!  (1) pred   (coveredcheck <this> <objects> <kind> <program> (expect accepted|unobservable|any))
//!             answer = what the `ir` stream answers for the same `(build …)` arguments (the real IR after
//!             `analyze_code_property_dependency`)
//!  (2) oracle (c02-header <this> <objects> <kind> <program> (expect …))
//!             answered here: the REAL generated C++ header is scanned against the REAL IR (static deps connected
//!             exactly once in `setup<B>()`, one observer snippet per `(observe h l sig)` right before the read
//!             through `a<l>->`, `PropertyObserver observed<B>_[N]`, setup-before-update order, setter call)
//!  (3) pred   (c02-history <this> <objects> <kind> <program> (world …) (history …))   [label `hist`]
//!             answer = as (1); only for int/bool/QString programs built from history-safe forms
//!
//! Every 4th int/bool/QString program is the value of a MEMBER of a gadget property of object a (`font.family: …`,
//! `sizePolicy.horizontalStretch: …`) next to 0-2 constant and 0-2 dynamic sibling members (`(siblings (sib "font.pointSize"
//! "12" const "pointsize" "12") (sib "font.italic" "b.next.b" dyn))` appended to all three requests): the member's real IR
//! goes through (1) and (3) unchanged, and (2) checks the update path of the WHOLE gadget against the real IR of every
//! leaf member observed through the hook ("final" phase): one connect per distinct dep of any member in `setup<B>()`,
//! `update<B>()` = read-modify-write `recv->setP(this->eval<B>(recv->p()))`, `eval<B>(T a)` assigns every member from
//! its own value function (observer snippets wired to `update<B>`), constant members embedded in the .ui, and
//! "accepted ∧ a dynamic member has no update path" is a failure.
//!
//!  (4) oracle (c02-doc (src "qml") (root "id") (expect accepted | rejected ["message"]) (ledger (b "obj" "path" dyn|const
//!             ["uitag" "text"])…)) — whole documents over real Qt classes + VBase: plain/grouped (QFont, QSizePolicy)
//!             bindings on widgets, on the layout, on the root, on a QAction, with sources QLineEdit/QCheckBox/QSpinBox/
//!             QSlider/QComboBox/root.windowTitle/VBase chains and the forms Math.max/min, "%1".arg() chains, list
//!             subscripts, the same property twice / through two paths, ternaries, a signal callback next to the
//!             bindings; documents that must be REJECTED: dynamic attached property, dynamic member of a nested object
//!             map (horizontalHeader.*), notify-less source, dynamic pseudo property (model / actions).  The same
//!             document-level oracle as for grouped targets (every leaf the pipeline or the generator's ledger
//!             considers dynamic has a complete update path; number of bindings in the header = number of dynamic groups).
//!
//! Additionally, for every 10th accepted program, an oracle case `(c02-mutant <4 build args> (mutation "m"))`
//! damages the real header in one specific way and requires the scanner of (2) to refuse it (`(ok detected …)`,
//! `(ok not-applicable)` when the header has nothing to damage): evidence that the scanner is not vacuous.
//! `(c02-source <4 build args>)` is a debugging aid that returns the QML document.
use crate::ast::{self, Decl, Expr, Program, Stmt};
use crate::env::{self, Mode};
use crate::rng::Rng;
use crate::sexp::{atom, boolean, list, node, num, st, Sexp};
use crate::streams::ir;
use crate::{Case, Stream};
use qmluic::typemap::TypeMap;
use qmluic::uigen::verif_hook;
use std::cell::RefCell;
use std::collections::{BTreeMap, BTreeSet};
use std::rc::Rc;

pub struct C02 {
    tm: TypeMap,
    ir: ir::Ir,
}

impl C02 {
    pub fn new() -> Self {
        C02 { tm: env::load_verif_type_map(), ir: ir::Ir::new() }
    }
}

// ------------------------------------------------------------------------------------------------
// generator

#[derive(Clone, Copy, Debug, PartialEq, Eq)]
enum T {
    Int,
    Bool,
    Str,
    PBase,
    POther,
    PDerived,
}

impl T {
    fn is_ptr(self) -> bool {
        matches!(self, T::PBase | T::POther | T::PDerived)
    }
    fn annotation(self) -> Vec<String> {
        let s = match self {
            T::Int => "int",
            T::Bool => "bool",
            T::Str => "QString",
            T::PBase => "VBase",
            T::POther => "VOther",
            T::PDerived => "VDerived",
        };
        vec![s.to_owned()]
    }
    /// binding target on object `a`
    fn lhs(self) -> &'static str {
        match self {
            T::Int => "j",
            T::Bool => "c",
            T::Str => "t",
            T::PBase => "next",
            T::POther => "peer",
            T::PDerived => "derived",
        }
    }
    fn label(self) -> &'static str {
        match self {
            T::Int => "int",
            T::Bool => "bool",
            T::Str => "str",
            _ => "ptr-result",
        }
    }
}

#[derive(Clone, Copy, Debug, PartialEq, Eq)]
enum Flavor {
    /// history-safe forms only; must compile
    Safe,
    /// history-safe forms plus one planted read of the notify-less property `nn`
    Nn,
    /// methods, write-only reads, derived/base mixing, pointer-typed results
    Other,
}

/// a form the program is guaranteed to contain
#[derive(Clone, Copy, Debug, PartialEq, Eq)]
enum Plant {
    Nn,
    Wo,
    Count,
    Pick,
    K,
    Ro,
}

struct Local {
    name: String,
    ty: T,
    is_const: bool,
}

fn id(n: &str) -> Expr {
    Expr::Ident(n.to_owned())
}
fn mem(o: Expr, p: &str) -> Expr {
    Expr::Member(Box::new(o), p.to_owned())
}
fn bin(op: &'static str, l: Expr, r: Expr) -> Expr {
    Expr::Binary(op, Box::new(l), Box::new(r))
}
fn un(op: &'static str, a: Expr) -> Expr {
    Expr::Unary(op, Box::new(a))
}
fn call(f: Expr, args: Vec<Expr>) -> Expr {
    Expr::Call(Box::new(f), args)
}
fn tern(c: Expr, a: Expr, b: Expr) -> Expr {
    Expr::Ternary(Box::new(c), Box::new(a), Box::new(b))
}
fn int(v: u64) -> Expr {
    Expr::Int(v, v.to_string())
}
fn assign(name: &str, v: Expr) -> Stmt {
    Stmt::Expr(Expr::Assign(Box::new(id(name)), Box::new(v)))
}

fn weighted(rng: &mut Rng, opts: &[(u32, u8)]) -> u8 {
    let total: u32 = opts.iter().map(|o| o.0).sum();
    let mut r = rng.below(total as usize) as u32;
    for (w, k) in opts {
        if r < *w {
            return *k;
        }
        r -= *w;
    }
    unreachable!()
}

/// `a.next`, `this.peer.base`, `next.next`, `p0.next`: member chains over an identifier / `this` (re-evaluable, no calls)
fn is_pure_chain(e: &Expr) -> bool {
    fn pure(e: &Expr) -> bool {
        match e {
            Expr::Ident(_) | Expr::This => true,
            Expr::Member(o, _) => pure(o),
            _ => false,
        }
    }
    match e {
        Expr::Member(o, _) => pure(o),
        // implicit-this pointer properties
        Expr::Ident(n) => matches!(n.as_str(), "next" | "peer" | "derived"),
        _ => false,
    }
}

const STR_LITS: &[&str] = &["", "x", "yz", "ab", "no"];

struct G<'r> {
    rng: &'r mut Rng,
    locals: Vec<Local>,
    next_local: usize,
    labels: BTreeSet<&'static str>,
    flavor: Flavor,
    allow_mix: bool,
    /// a form that must occur in the program (planted at the first opportunity, else wrapped around the result)
    plant: Option<Plant>,
    planted: bool,
    /// a form outside the history-safe set was used (method, wo, nn, mixing)
    unsafe_used: bool,
    /// a form that is not expected to compile was used
    risky: bool,
    /// the target is `a.next`: `.next` is only read from the named objects b / dv
    ptr_result: bool,
}

impl<'r> G<'r> {
    fn new(rng: &'r mut Rng, flavor: Flavor) -> Self {
        G {
            rng,
            locals: vec![],
            next_local: 0,
            labels: BTreeSet::new(),
            flavor,
            allow_mix: false,
            plant: None,
            planted: false,
            unsafe_used: false,
            risky: false,
            ptr_result: false,
        }
    }

    /// the pending int-valued plant (property name; `count` is a method), marking it as done
    fn take_int_plant(&mut self, implicit: bool) -> Option<&'static str> {
        if self.planted {
            return None;
        }
        let p = match self.plant? {
            Plant::Nn => "nn",
            Plant::Wo => "wo",
            Plant::Count if !implicit => "count",
            Plant::K => "k",
            Plant::Ro => "ro",
            _ => return None,
        };
        self.planted = true;
        self.mark_prop(p);
        Some(p)
    }

    /// labels / flags of a special int property
    fn mark_prop(&mut self, p: &str) {
        match p {
            "nn" => {
                self.lab("nn");
                self.unsafe_used = true;
            }
            "wo" => {
                self.lab("wo");
                self.unsafe_used = true;
                self.risky = true;
            }
            "count" | "pick" => {
                self.lab("method");
                self.unsafe_used = true;
            }
            "k" => self.lab("const-k"),
            "ro" => self.lab("ro"),
            "extra" => self.lab("derived"),
            _ => {}
        }
    }

    fn lab(&mut self, l: &'static str) {
        self.labels.insert(l);
    }

    fn locals_of(&self, ty: T) -> Vec<usize> {
        (0..self.locals.len()).filter(|&i| self.locals[i].ty == ty).collect()
    }

    fn let_locals(&self) -> Vec<usize> {
        (0..self.locals.len()).filter(|&i| !self.locals[i].is_const).collect()
    }

    fn fresh(&mut self, ty: T) -> String {
        let n = self.next_local;
        self.next_local += 1;
        format!("{}{}", if ty.is_ptr() { "p" } else { "x" }, n)
    }

    fn literal(&mut self, ty: T) -> Expr {
        match ty {
            T::Int => int(self.rng.below(10) as u64),
            T::Bool => Expr::Bool(self.rng.chance(1, 2)),
            T::Str => Expr::Str((*self.rng.pick(STR_LITS)).to_owned()),
            _ => Expr::Null,
        }
    }

    // ---- object (pointer-typed) expressions of exactly the static type `ty`

    fn vbase_like(&mut self, d: usize) -> (Expr, T) {
        if self.rng.chance(1, 4) {
            self.lab("derived");
            (self.obj(T::PDerived, d), T::PDerived)
        } else {
            (self.obj(T::PBase, d), T::PBase)
        }
    }

    fn obj(&mut self, ty: T, d: usize) -> Expr {
        const NAMED: u8 = 0;
        const THIS: u8 = 1;
        const LOCAL: u8 = 2;
        const HOP: u8 = 3;
        const BASE: u8 = 4;
        const IMPL: u8 = 5;
        const TERN: u8 = 6;
        const PICK: u8 = 7;
        const MIX: u8 = 8;
        let mut opts: Vec<(u32, u8)> = vec![(6, NAMED)];
        let ls = self.locals_of(ty);
        if !ls.is_empty() {
            opts.push((8, LOCAL));
        }
        if ty == T::PBase {
            opts.push((1, THIS));
        }
        if d > 0 {
            opts.push((9, HOP));
            if ty == T::PBase {
                opts.push((3, BASE));
            }
            if !(ty == T::PBase && self.ptr_result) {
                opts.push((1, IMPL));
            }
            opts.push((2, TERN));
            if self.plant == Some(Plant::Pick) && !self.planted && ty == T::PBase {
                opts.push((40, PICK));
            } else if self.flavor == Flavor::Other && ty == T::PBase {
                opts.push((5, PICK));
                if self.allow_mix {
                    opts.push((4, MIX));
                }
            }
        }
        match weighted(self.rng, &opts) {
            NAMED => match ty {
                T::PBase => id(*self.rng.pick(&["a", "b", "b"])),
                T::POther => id("o"),
                _ => id("dv"),
            },
            THIS => {
                self.lab("this");
                Expr::This
            }
            LOCAL => {
                let i = *self.rng.pick(&ls);
                id(&self.locals[i].name.clone())
            }
            HOP => {
                let prop = match ty {
                    T::PBase => "next",
                    T::POther => "peer",
                    _ => "derived",
                };
                let recv = if ty == T::PBase && self.ptr_result {
                    id(*self.rng.pick(&["b", "dv"]))
                } else {
                    self.vbase_like(d - 1).0
                };
                mem(recv, prop)
            }
            BASE => {
                let r = self.obj(T::POther, d - 1);
                mem(r, "base")
            }
            IMPL => {
                self.lab("implicit-this");
                id(match ty {
                    T::PBase => "next",
                    T::POther => "peer",
                    _ => "derived",
                })
            }
            TERN => {
                self.lab("ternary-obj");
                let c = self.cond(T::Bool, (d - 1).min(1));
                let x = self.obj(ty, d - 1);
                let y = self.other_than(&x, ty, d - 1);
                tern(c, x, y)
            }
            PICK => {
                self.mark_prop("pick");
                if self.plant == Some(Plant::Pick) {
                    self.planted = true;
                }
                let r = self.vbase_like(d - 1).0;
                let arg = self.expr(T::Int, (d - 1).min(1));
                call(mem(r, "pick"), vec![arg])
            }
            _ => {
                // VBase* / VDerived* mixing in a ternary: rejected by the real type checker
                self.lab("derived-mix");
                self.unsafe_used = true;
                self.risky = true;
                let c = self.expr(T::Bool, (d - 1).min(1));
                let x = self.obj(T::PBase, d - 1);
                let y = self.obj(T::PDerived, d - 1);
                if self.rng.chance(1, 2) {
                    tern(c, x, y)
                } else {
                    tern(c, y, x)
                }
            }
        }
    }

    // ---- property reads

    fn read_via(&mut self, ty: T, recv: Expr, rty: T) -> Expr {
        let mut is_call = false;
        let prop: &'static str = match (rty, ty) {
            (T::POther, T::Int) => "n",
            (T::POther, T::Bool) => "on",
            (T::POther, _) => "name",
            (_, T::Bool) => "b",
            (_, T::Str) => "s",
            _ => {
                if let Some(p) = self.take_int_plant(false) {
                    is_call = p == "count";
                    p
                } else {
                    let mut opts: Vec<(u32, u8)> = vec![(16, 0), (2, 1), (3, 2)];
                    if rty == T::PDerived {
                        opts.push((8, 3));
                    }
                    if self.flavor == Flavor::Other {
                        opts.push((5, 5));
                    }
                    let p = match weighted(self.rng, &opts) {
                        0 => "i",
                        1 => "ro",
                        2 => "k",
                        3 => "extra",
                        4 => "wo",
                        _ => "count",
                    };
                    is_call = p == "count";
                    self.mark_prop(p);
                    p
                }
            }
        };
        let access = if is_call { call(mem(recv.clone(), prop), vec![]) } else { mem(recv.clone(), prop) };
        if is_pure_chain(&recv) && self.rng.chance(1, 2) {
            self.lab("guard");
            let dflt = self.literal(ty);
            let null = Expr::Null;
            return match self.rng.below(5) {
                0 | 1 => tern(bin("ne", recv, null), access, dflt),
                2 => tern(bin("sne", recv, null), access, dflt),
                3 => tern(bin("eq", recv, null), dflt, access),
                _ => tern(bin("ne", null, recv), access, dflt),
            };
        }
        access
    }

    fn read(&mut self, ty: T, d: usize) -> Expr {
        // implicit this (`b` is not used: the identifier also names the object b)
        if ty != T::Bool && self.rng.chance(1, 10) {
            self.lab("implicit-this");
            return match ty {
                T::Str => id("s"),
                _ => {
                    if let Some(p) = self.take_int_plant(true) {
                        id(p)
                    } else {
                        match self.rng.below(6) {
                            0 => {
                                self.lab("ro");
                                id("ro")
                            }
                            1 => {
                                self.lab("const-k");
                                id("k")
                            }
                            _ => id("i"),
                        }
                    }
                }
            };
        }
        if self.rng.chance(3, 11) {
            let r = self.obj(T::POther, d);
            self.read_via(ty, r, T::POther)
        } else {
            let (r, rty) = self.vbase_like(d);
            self.read_via(ty, r, rty)
        }
    }

    // ---- expressions

    /// a condition / discriminant: not a compile-time constant (a few tries)
    fn cond(&mut self, ty: T, d: usize) -> Expr {
        let mut e = self.expr(ty, d);
        for _ in 0..4 {
            if is_dynamic(&e) {
                break;
            }
            e = self.expr(ty, d);
        }
        e
    }

    /// a second operand different from the first (avoids `x == x`)
    fn other_than(&mut self, l: &Expr, ty: T, d: usize) -> Expr {
        let mut r = self.expr(ty, d);
        for _ in 0..4 {
            if r != *l {
                break;
            }
            r = self.expr(ty, d);
        }
        r
    }

    fn leaf(&mut self, ty: T) -> Expr {
        let ls = self.locals_of(ty);
        if !ls.is_empty() && self.rng.chance(1, 3) {
            let i = *self.rng.pick(&ls);
            return id(&self.locals[i].name.clone());
        }
        if self.rng.chance(if ty == T::Bool { 9 } else { 3 }, if ty == T::Bool { 10 } else { 4 }) {
            self.read(ty, 0)
        } else {
            self.literal(ty)
        }
    }

    fn expr(&mut self, ty: T, d: usize) -> Expr {
        if ty.is_ptr() {
            return self.obj(ty, d.min(3));
        }
        if d == 0 {
            return self.leaf(ty);
        }
        const READ: u8 = 0;
        const LOCAL: u8 = 1;
        const LIT: u8 = 2;
        const ARITH: u8 = 3;
        const TERN: u8 = 4;
        const NOT: u8 = 5;
        const ICMP: u8 = 6;
        const LOGIC: u8 = 7;
        const PCMP: u8 = 8;
        const NULLCMP: u8 = 9;
        const SEQ: u8 = 10;
        const UCMP: u8 = 11;
        const MAXMIN: u8 = 12;
        const SUBSCRIPT: u8 = 13;
        const ARG: u8 = 14;
        const TWOPATH: u8 = 15;
        let ls = self.locals_of(ty);
        let mut opts: Vec<(u32, u8)> = vec![];
        if !ls.is_empty() {
            opts.push((5, LOCAL));
        }
        match ty {
            T::Int => opts.extend([(14, READ), (2, LIT), (8, ARITH), (4, TERN), (3, MAXMIN), (2, TWOPATH)]),
            T::Bool => opts.extend([(8, READ), (1, LIT), (2, NOT), (8, ICMP), (6, LOGIC), (6, PCMP), (3, NULLCMP), (3, SEQ), (2, UCMP)]),
            _ => opts.extend([(12, READ), (2, LIT), (6, ARITH), (4, TERN), (2, TWOPATH)]),
        }
        // forms the Lean history evaluator does not interpret (list values, QString::arg): cases 1 and 2 only
        if self.flavor == Flavor::Other && !self.ptr_result {
            match ty {
                T::Int => opts.push((6, SUBSCRIPT)),
                T::Str => opts.extend([(6, SUBSCRIPT), (8, ARG)]),
                _ => {}
            }
        }
        match weighted(self.rng, &opts) {
            READ => self.read(ty, d.min(3)),
            LOCAL => {
                let i = *self.rng.pick(&ls);
                id(&self.locals[i].name.clone())
            }
            LIT => self.literal(ty),
            MAXMIN => {
                // Math.max / Math.min of two dynamic reads
                self.lab("mathmax");
                let dd = (d - 1).min(2);
                let l = self.expr(T::Int, dd);
                let r = self.expr(T::Int, dd);
                call(mem(id("Math"), *self.rng.pick(&["max", "min"])), vec![l, r])
            }
            TWOPATH => {
                // the same property read twice: through the same path, or through two paths that may meet
                self.lab("twopaths");
                let p = if ty == T::Int { "i" } else { "s" };
                self.mark_prop(p);
                let x = self.vbase_like(d.min(2)).0;
                let y = if self.rng.chance(1, 2) { x.clone() } else { self.vbase_like(d.min(2)).0 };
                bin(if ty == T::Int && self.rng.chance(1, 2) { "sub" } else { "add" }, mem(x, p), mem(y, p))
            }
            SUBSCRIPT => {
                // reads through list subscripts: the list property is what has to be observed
                self.lab("subscript");
                self.unsafe_used = true;
                let o = self.vbase_like(d.min(2)).0;
                let idx = if self.rng.chance(1, 2) { self.literal(T::Int) } else { self.read(T::Int, 1) };
                Expr::Subscript(Box::new(mem(o, if ty == T::Int { "ints" } else { "items" })), Box::new(idx))
            }
            ARG => {
                // QString::arg chains over dynamic reads
                self.lab("arg");
                self.unsafe_used = true;
                let a1 = self.expr(T::Str, (d - 1).min(1));
                let a2 = self.expr(T::Int, (d - 1).min(1));
                let first = call(mem(Expr::Str("%1-%2".into()), "arg"), vec![a1]);
                call(mem(first, "arg"), vec![a2])
            }
            ARITH => {
                // ints: depth ≤ 3 over |values| ≤ 20ish: no 32-bit overflow; strings: concatenation
                let dd = (d - 1).min(2);
                let l = self.expr(ty, dd);
                let r = self.expr(ty, dd);
                let op = if ty == T::Str || self.rng.chance(1, 2) { "add" } else { "sub" };
                bin(op, l, r)
            }
            TERN => {
                let c = self.cond(T::Bool, (d - 1).min(2));
                let x = self.expr(ty, d - 1);
                let y = self.other_than(&x, ty, d - 1);
                tern(c, x, y)
            }
            NOT => {
                let x = self.expr(T::Bool, d - 1);
                un("not", x)
            }
            ICMP => {
                let l = self.expr(T::Int, d - 1);
                let r = self.other_than(&l, T::Int, d - 1);
                bin(*self.rng.pick(&["eq", "ne", "lt", "lt"]), l, r)
            }
            LOGIC => {
                let l = self.expr(T::Bool, d - 1);
                let r = self.expr(T::Bool, d - 1);
                bin(*self.rng.pick(&["land", "lor"]), l, r)
            }
            PCMP => {
                self.lab("ptr-cmp");
                let pty = *self.rng.pick(&[T::PBase, T::PBase, T::PBase, T::PBase, T::POther, T::PDerived]);
                let l = self.obj(pty, d.min(2));
                let r = self.other_than(&l, pty, (d - 1).min(2));
                bin(*self.rng.pick(&["eq", "ne"]), l, r)
            }
            NULLCMP => {
                self.lab("ptr-cmp");
                self.lab("null-cmp");
                let pty = *self.rng.pick(&[T::PBase, T::PBase, T::POther, T::PDerived]);
                let l = self.obj(pty, d.min(2));
                let op = *self.rng.pick(&["eq", "ne"]);
                if self.rng.chance(1, 4) {
                    bin(op, Expr::Null, l)
                } else {
                    bin(op, l, Expr::Null)
                }
            }
            SEQ => {
                let l = self.expr(T::Str, d - 1);
                let r = self.other_than(&l, T::Str, d - 1);
                bin(*self.rng.pick(&["eq", "ne"]), l, r)
            }
            _ => {
                // uint only meets uint or a literal
                debug_assert_eq!(UCMP, 11);
                self.lab("uint");
                let l = self.vbase_like((d - 1).min(2)).0;
                let r = if self.rng.chance(1, 2) { mem(self.vbase_like((d - 1).min(1)).0, "u") } else { self.literal(T::Int) };
                bin(*self.rng.pick(&["eq", "ne", "lt"]), mem(l, "u"), r)
            }
        }
    }

    // ---- statements

    fn decl(&mut self, lty: T, force_let: bool, d: usize) -> Stmt {
        let init = if lty.is_ptr() { self.obj(lty, d.min(2)) } else { self.expr(lty, d.saturating_sub(1).max(1)) };
        let is_const = !force_let && self.rng.chance(3, 10);
        let ann = if self.rng.chance(1, 4) { Some(lty.annotation()) } else { None };
        let name = self.fresh(lty);
        if lty.is_ptr() {
            self.lab("local");
        }
        self.locals.push(Local { name: name.clone(), ty: lty, is_const });
        Stmt::Lexical(is_const, vec![Decl { name, ty: ann, value: Some(init) }])
    }

    fn random_local_ty(&mut self) -> T {
        match weighted(self.rng, &[(10, 0), (3, 1), (3, 2), (4, 3), (2, 4), (2, 5)]) {
            0 => T::PBase,
            1 => T::POther,
            2 => T::PDerived,
            3 => T::Int,
            4 => T::Bool,
            _ => T::Str,
        }
    }

    fn assign_to(&mut self, idx: usize, d: usize) -> Stmt {
        let name = self.locals[idx].name.clone();
        let ty = self.locals[idx].ty;
        let v = if ty == T::PBase && self.rng.chance(1, 5) {
            // implicit upcast VDerived* → VBase*
            self.lab("derived");
            self.obj(T::PDerived, d.min(2))
        } else {
            // not `p = p`
            let me = id(&name);
            self.other_than(&me, ty, d.max(1).min(2))
        };
        assign(&name, v)
    }

    /// a let-local to assign to (pointer-typed preferred)
    fn pick_let(&mut self) -> Option<usize> {
        let ls = self.let_locals();
        if ls.is_empty() {
            return None;
        }
        let ps: Vec<usize> = ls.iter().copied().filter(|&i| self.locals[i].ty.is_ptr()).collect();
        if !ps.is_empty() && self.rng.chance(4, 5) {
            Some(*self.rng.pick(&ps))
        } else {
            Some(*self.rng.pick(&ls))
        }
    }

    /// `{ [let …] [x = …] [if …] [return e] }`; with `must_assign` the block assigns that local, otherwise it ends in `return`
    fn branch(&mut self, ty: T, d: usize, must_assign: Option<usize>) -> Stmt {
        let mark = self.locals.len();
        let mut ss = vec![];
        if self.rng.chance(1, 5) {
            let lty = self.random_local_ty();
            ss.push(self.decl(lty, false, d));
        }
        if let Some(i) = must_assign {
            ss.push(self.assign_to(i, d));
        } else if self.rng.chance(1, 2) {
            if let Some(i) = self.pick_let() {
                ss.push(self.assign_to(i, d));
            }
        }
        if d > 1 && self.rng.chance(1, 4) {
            if let Some(i) = self.pick_let() {
                let c = self.cond(T::Bool, 1);
                let inner = self.branch(ty, d - 1, Some(i));
                let els = if self.rng.chance(1, 3) { Some(Box::new(self.branch(ty, d - 1, Some(i)))) } else { None };
                ss.push(Stmt::If(c, Box::new(inner), els));
            }
        }
        if must_assign.is_none() || self.rng.chance(1, 6) {
            self.lab("nontaken");
            let e = self.result_expr(ty, d);
            ss.push(Stmt::Return(Some(e)));
        }
        self.locals.truncate(mark);
        Stmt::Block(ss)
    }

    fn if_assign(&mut self, ty: T, d: usize, out: &mut Vec<Stmt>) {
        let idx = match self.pick_let() {
            Some(i) => i,
            None => {
                let lty = *self.rng.pick(&[T::PBase, T::PBase, T::PBase, T::POther, T::PDerived, T::Int]);
                out.push(self.decl(lty, true, d));
                self.locals.len() - 1
            }
        };
        if self.locals[idx].ty.is_ptr() {
            self.lab("local-branch");
        }
        let c = self.cond(T::Bool, d.min(2));
        let dd = d.saturating_sub(1);
        let then = self.branch(ty, dd, Some(idx));
        let els = match self.rng.below(4) {
            0 | 1 => None,
            2 => Some(self.branch(ty, dd, Some(idx))),
            _ => {
                let c2 = self.cond(T::Bool, 1);
                let t2 = self.branch(ty, dd, Some(idx));
                let e2 = if self.rng.chance(1, 2) { Some(Box::new(self.branch(ty, dd, Some(idx)))) } else { None };
                Some(Stmt::If(c2, Box::new(t2), e2))
            }
        };
        out.push(Stmt::If(c, Box::new(then), els.map(Box::new)));
    }

    fn if_return(&mut self, ty: T, d: usize, out: &mut Vec<Stmt>) {
        let c = self.cond(T::Bool, d.min(2));
        let dd = d.saturating_sub(1);
        let then = self.branch(ty, dd, None);
        let els = if self.rng.chance(1, 3) {
            let target = if self.rng.chance(1, 2) { self.pick_let() } else { None };
            Some(Box::new(self.branch(ty, dd, target)))
        } else {
            None
        };
        out.push(Stmt::If(c, Box::new(then), els));
    }

    fn switch(&mut self, ty: T, d: usize, out: &mut Vec<Stmt>) {
        self.lab("switch");
        if self.let_locals().is_empty() && self.rng.chance(2, 3) {
            let lty = *self.rng.pick(&[T::PBase, T::PBase, T::POther, T::Int]);
            out.push(self.decl(lty, true, d));
        }
        let dd0 = 1 + self.rng.below(2);
        let disc = self.cond(T::Int, dd0);
        let ncases = 1 + self.rng.below(3);
        let mut vals: Vec<u64> = (0..6).collect();
        self.rng.shuffle(&mut vals);
        let dd = d.saturating_sub(1);
        let mut clauses: Vec<(Option<Expr>, Vec<Stmt>)> = vec![];
        for v in vals.into_iter().take(ncases) {
            let body = self.case_body(ty, dd);
            clauses.push((Some(int(v)), body));
        }
        if self.rng.chance(7, 10) {
            let body = self.case_body(ty, dd);
            let pos = if self.rng.chance(1, 6) { self.rng.below(clauses.len() + 1) } else { clauses.len() };
            clauses.insert(pos, (None, body));
        }
        out.push(Stmt::Switch(disc, clauses));
    }

    fn case_body(&mut self, ty: T, d: usize) -> Vec<Stmt> {
        let mut ss = vec![];
        let n = self.rng.below(3);
        for _ in 0..n {
            if let Some(i) = self.pick_let() {
                if self.locals[i].ty.is_ptr() {
                    self.lab("local-branch");
                }
                if d > 0 && self.rng.chance(1, 5) {
                    let c = self.cond(T::Bool, 1);
                    let b = self.branch(ty, d - 1, Some(i));
                    ss.push(Stmt::If(c, Box::new(b), None));
                } else {
                    ss.push(self.assign_to(i, d));
                }
            }
        }
        match self.rng.below(4) {
            0 | 1 => ss.push(Stmt::Break(false)),
            2 => {
                self.lab("nontaken");
                let e = self.result_expr(ty, d);
                ss.push(Stmt::Return(Some(e)));
            }
            _ => self.lab("fallthrough"),
        }
        ss
    }

    /// the expression of a `return`: reads through a pointer local are preferred when there is one
    fn result_expr(&mut self, ty: T, d: usize) -> Expr {
        if ty.is_ptr() {
            return self.obj(ty, d.min(2));
        }
        let ps: Vec<usize> = (0..self.locals.len()).filter(|&i| self.locals[i].ty.is_ptr()).collect();
        if !ps.is_empty() && self.rng.chance(3, 5) {
            let i = *self.rng.pick(&ps);
            let lty = self.locals[i].ty;
            let mut recv = id(&self.locals[i].name.clone());
            let mut rty = lty;
            // optionally one more hop through the local
            if lty != T::POther && self.rng.chance(1, 3) {
                let (p, t) = *self.rng.pick(&[("next", T::PBase), ("next", T::PBase), ("peer", T::POther), ("derived", T::PDerived)]);
                if !(self.ptr_result && p == "next") {
                    recv = mem(recv, p);
                    rty = t;
                }
            } else if lty == T::POther && self.rng.chance(1, 3) {
                recv = mem(recv, "base");
                rty = T::PBase;
            }
            let r = self.read_via(ty, recv, rty);
            if d > 0 && self.rng.chance(1, 3) {
                let other = self.expr(ty, (d - 1).min(2));
                return match ty {
                    T::Int => bin(*self.rng.pick(&["add", "sub"]), r, other),
                    T::Bool => bin(*self.rng.pick(&["land", "lor"]), r, other),
                    _ => bin("add", r, other),
                };
            }
            return r;
        }
        self.expr(ty, d)
    }

    fn block_program(&mut self, ty: T, d: usize) -> Vec<Stmt> {
        let mut out = vec![];
        let n = 1 + self.rng.below(3);
        for _ in 0..n {
            let mut opts: Vec<(u32, u8)> = vec![(6, 0), (5, 2), (3, 3), (3, 4)];
            if !self.let_locals().is_empty() {
                opts.push((2, 1));
            }
            match weighted(self.rng, &opts) {
                0 => {
                    let lty = self.random_local_ty();
                    let s = self.decl(lty, false, d);
                    out.push(s);
                }
                1 => {
                    let i = self.pick_let().unwrap();
                    let s = self.assign_to(i, d);
                    out.push(s);
                }
                2 => self.if_assign(ty, d, &mut out),
                3 => self.if_return(ty, d, &mut out),
                _ => self.switch(ty, d, &mut out),
            }
        }
        let e = self.result_expr(ty, d);
        out.push(Stmt::Return(Some(e)));
        out
    }

    /// `a.pick(0)`, `b.next.pick(a.i)`: a hand-shaped method call returning VBase*
    fn planted_pick(&mut self) -> Expr {
        self.planted = true;
        self.mark_prop("pick");
        let arg = if self.rng.chance(1, 2) { int(self.rng.below(3) as u64) } else { mem(id("a"), "i") };
        let recv = match self.rng.below(4) {
            0 => id("a"),
            1 => id("b"),
            2 => id("dv"),
            _ => mem(id("b"), "next"),
        };
        call(mem(recv, "pick"), vec![arg])
    }

    /// a hand-shaped int read containing the pending plant (used when no opportunity came up while generating)
    fn planted_read(&mut self) -> Expr {
        let plant = self.plant.expect("plant");
        if plant == Plant::Pick {
            let picked = self.planted_pick();
            return match self.rng.below(4) {
                0 => mem(picked, "i"),
                1 => mem(mem(picked, "next"), "i"),
                2 => mem(mem(picked, "peer"), "n"),
                _ => mem(picked, "ro"),
            };
        }
        self.planted = true;
        let p = match plant {
            Plant::Nn => "nn",
            Plant::Wo => "wo",
            Plant::Count => "count",
            Plant::K => "k",
            _ => "ro",
        };
        self.mark_prop(p);
        let recv = match self.rng.below(9) {
            0 => id("a"),
            1 => id("b"),
            2 => mem(id("b"), "next"),
            3 => mem(id("a"), "next"),
            4 if p != "count" => {
                self.lab("implicit-this");
                return id(p);
            }
            5 => id("dv"),
            6 => mem(id("a"), "derived"),
            7 => {
                self.lab("this");
                Expr::This
            }
            _ => mem(id("o"), "base"),
        };
        if p == "count" {
            call(mem(recv, p), vec![])
        } else {
            mem(recv, p)
        }
    }

    fn program(&mut self, ty: T, d: usize) -> Program {
        let as_expr = self.rng.chance(if ty.is_ptr() { 6 } else { 4 }, 10);
        if as_expr {
            self.lab("expr");
            // a top-level expression reads at least one property (constants are folded into the .ui file and have
            // no binding); a few purely constant programs are kept
            let snapshot = (self.labels.clone(), self.planted, self.unsafe_used, self.risky);
            let keep_constant = self.rng.chance(1, 40);
            let mut tries = 0;
            let mut e;
            loop {
                e = if ty == T::PBase && self.plant.is_none() && self.rng.chance(1, 5) {
                    // a VDerived* expression bound to a VBase* property
                    self.lab("derived");
                    self.obj(T::PDerived, d.min(2))
                } else {
                    self.expr(ty, d)
                };
                tries += 1;
                if keep_constant || tries >= 8 || expr_reads(&e) {
                    break;
                }
                (self.labels, self.planted, self.unsafe_used, self.risky) = snapshot.clone();
            }
            if self.plant.is_some() && !self.planted {
                if ty.is_ptr() {
                    let pk = self.planted_pick();
                    e = tern(mem(id("b"), "b"), pk, e);
                } else {
                    let r = self.planted_read();
                    e = match ty {
                        T::Int => {
                            if self.rng.chance(1, 2) {
                                bin("add", r, e)
                            } else {
                                bin("sub", e, r)
                            }
                        }
                        T::Bool => bin("land", bin("lt", r, int(3)), e),
                        _ => tern(bin("eq", r, int(0)), e, Expr::Str("no".into())),
                    };
                }
            }
            Program::Stmt(Stmt::Expr(e))
        } else {
            self.lab("block");
            let mut ss = self.block_program(ty, d);
            if self.plant.is_some() && !self.planted {
                let (r, lty) = if self.plant == Some(Plant::Pick) && self.rng.chance(1, 2) {
                    (self.planted_pick(), T::PBase)
                } else if ty.is_ptr() {
                    (self.planted_pick(), T::PBase)
                } else {
                    (self.planted_read(), T::Int)
                };
                let name = self.fresh(lty);
                ss.insert(0, Stmt::Lexical(self.rng.chance(1, 2), vec![Decl { name, ty: None, value: Some(r) }]));
            }
            Program::Stmt(Stmt::Block(ss))
        }
    }
}

/// not obviously a compile-time constant: reads a property, calls a method or uses a local
fn is_dynamic(e: &Expr) -> bool {
    let mut found = false;
    walk_expr(
        e,
        &mut |x: &Expr, _| match x {
            Expr::Member(..) | Expr::Call(..) => found = true,
            Expr::Ident(n) if !matches!(n.as_str(), "a" | "b" | "o" | "dv") => found = true,
            _ => {}
        },
        false,
    );
    found
}

fn expr_reads(e: &Expr) -> bool {
    let mut found = false;
    walk_expr(
        e,
        &mut |x: &Expr, _| match x {
            Expr::Member(..) | Expr::Call(..) => found = true,
            Expr::Ident(n) if PROP_NAMES.contains(&n.as_str()) && n != "b" => found = true,
            _ => {}
        },
        false,
    );
    found
}

// ------------------------------------------------------------------------------------------------
// post-hoc facts about a program (labels, textual property set)

fn walk_expr(e: &Expr, f: &mut dyn FnMut(&Expr, bool), parent_is_member: bool) {
    f(e, parent_is_member);
    match e {
        Expr::Member(o, _) => walk_expr(o, f, true),
        Expr::Subscript(a, b) | Expr::Assign(a, b) | Expr::Binary(_, a, b) => {
            walk_expr(a, f, false);
            walk_expr(b, f, false);
        }
        Expr::Call(g, args) => {
            // the callee `x.m` is not a property read; its receiver is walked
            match &**g {
                Expr::Member(o, _) => walk_expr(o, f, false),
                other => walk_expr(other, f, false),
            }
            for a in args {
                walk_expr(a, f, false);
            }
        }
        Expr::Unary(_, a) | Expr::As(a, _) => walk_expr(a, f, false),
        Expr::Ternary(c, a, b) => {
            walk_expr(c, f, false);
            walk_expr(a, f, false);
            walk_expr(b, f, false);
        }
        Expr::Array(xs) => {
            for x in xs {
                walk_expr(x, f, false);
            }
        }
        _ => {}
    }
}

fn walk_stmt(s: &Stmt, f: &mut dyn FnMut(&Expr, bool)) {
    match s {
        Stmt::Expr(e) => walk_expr(e, f, false),
        Stmt::Block(ss) => ss.iter().for_each(|x| walk_stmt(x, f)),
        Stmt::Lexical(_, ds) => {
            for d in ds {
                if let Some(v) = &d.value {
                    walk_expr(v, f, false);
                }
            }
        }
        Stmt::If(c, a, b) => {
            walk_expr(c, f, false);
            walk_stmt(a, f);
            if let Some(b) = b {
                walk_stmt(b, f);
            }
        }
        Stmt::Switch(v, cl) => {
            walk_expr(v, f, false);
            for (c, body) in cl {
                if let Some(c) = c {
                    walk_expr(c, f, false);
                }
                body.iter().for_each(|x| walk_stmt(x, f));
            }
        }
        Stmt::Break(_) => {}
        Stmt::Return(e) => {
            if let Some(e) = e {
                walk_expr(e, f, false);
            }
        }
    }
}

const PROP_NAMES: &[&str] =
    &["i", "u", "b", "s", "next", "peer", "derived", "ro", "k", "nn", "extra", "n", "name", "on", "base", "wo"];

/// number of property hops of a member chain (`a.next.i` = 2, implicit-this `next.i` = 2)
fn chain_len(e: &Expr) -> usize {
    match e {
        Expr::Member(o, _) => 1 + chain_len(o),
        Expr::Ident(n) if matches!(n.as_str(), "next" | "peer" | "derived") => 1,
        _ => 0,
    }
}

fn program_facts(p: &Program) -> (usize, BTreeSet<String>) {
    let mut max_chain = 0usize;
    let mut props = BTreeSet::new();
    let mut f = |e: &Expr, parent_is_member: bool| {
        match e {
            Expr::Member(_, n) => {
                props.insert(n.clone());
                if !parent_is_member {
                    max_chain = max_chain.max(chain_len(e));
                }
            }
            Expr::Ident(n) if PROP_NAMES.contains(&n.as_str()) && n != "b" => {
                props.insert(n.clone());
            }
            _ => {}
        }
    };
    if let Program::Stmt(s) = p {
        walk_stmt(s, &mut f);
    }
    (max_chain, props)
}

// ------------------------------------------------------------------------------------------------
// worlds and histories

#[derive(Clone, Copy)]
enum PK {
    Int(i64, i64),
    Bool,
    Str,
    Ptr(&'static [&'static str]),
}

const BASES: &[&str] = &["a", "b", "dv"];
const VBASE_PROPS: &[(&str, PK)] = &[
    ("i", PK::Int(-20, 20)),
    ("u", PK::Int(0, 20)),
    ("b", PK::Bool),
    ("s", PK::Str),
    ("next", PK::Ptr(BASES)),
    ("peer", PK::Ptr(&["o"])),
    ("derived", PK::Ptr(&["dv"])),
    ("ro", PK::Int(-20, 20)),
    ("k", PK::Int(-20, 20)),
    ("nn", PK::Int(-20, 20)),
];
const VDERIVED_EXTRA: &[(&str, PK)] = &[("extra", PK::Int(-20, 20))];
const VOTHER_PROPS: &[(&str, PK)] = &[("n", PK::Int(-20, 20)), ("name", PK::Str), ("on", PK::Bool), ("base", PK::Ptr(BASES))];

fn props_of(cls: &str) -> Vec<(&'static str, PK)> {
    match cls {
        "VOther" => VOTHER_PROPS.to_vec(),
        "VDerived" => VBASE_PROPS.iter().chain(VDERIVED_EXTRA).copied().collect(),
        _ => VBASE_PROPS.to_vec(),
    }
}

#[derive(Clone, Debug, PartialEq, Eq)]
enum V {
    Int(i64),
    Bool(bool),
    Str(String),
    Ptr(Option<&'static str>),
}

impl V {
    fn sexp(&self) -> Sexp {
        match self {
            V::Int(i) => node("int", vec![num(*i)]),
            V::Bool(b) => node("bool", vec![boolean(*b)]),
            V::Str(s) => node("str", vec![st(s.clone())]),
            V::Ptr(Some(o)) => node("ptr", vec![st(*o)]),
            V::Ptr(None) => node("nullptr", vec![]),
        }
    }
}

fn random_str(rng: &mut Rng) -> String {
    let n = rng.below(4);
    (0..n).map(|_| *rng.pick(&['x', 'y', 'z', 'a', 'b'])).collect()
}

fn random_value(rng: &mut Rng, k: PK, null_pct: u32) -> V {
    match k {
        PK::Int(lo, hi) => V::Int(rng.range(lo, hi)),
        PK::Bool => V::Bool(rng.chance(1, 2)),
        PK::Str => V::Str(random_str(rng)),
        PK::Ptr(adm) => {
            if rng.chance(null_pct, 100) {
                V::Ptr(None)
            } else {
                V::Ptr(Some(*rng.pick(adm)))
            }
        }
    }
}

fn world_and_history(rng: &mut Rng, textual: &BTreeSet<String>) -> (Sexp, Sexp) {
    // (object, property) → (kind, current value), in declaration order
    let mut slots: Vec<(&'static str, &'static str, PK)> = vec![];
    let mut state: BTreeMap<(&'static str, &'static str), V> = BTreeMap::new();
    let mut objs = vec![];
    for (oid, cls) in ir::OBJECTS {
        let mut fields = vec![];
        for (p, k) in props_of(cls) {
            let v = random_value(rng, k, 12);
            fields.push(list(vec![st(p), v.sexp()]));
            slots.push((oid, p, k));
            state.insert((oid, p), v);
        }
        objs.push(node("obj", vec![st(*oid), list(fields)]));
    }
    let world = node("world", objs);

    let is_ptr = |k: &PK| matches!(k, PK::Ptr(_));
    let value_slots: Vec<usize> = (0..slots.len()).filter(|&i| !is_ptr(&slots[i].2) && slots[i].1 != "k" && slots[i].1 != "nn").collect();
    let ptr_slots: Vec<usize> = (0..slots.len()).filter(|&i| is_ptr(&slots[i].2)).collect();
    let unrelated: Vec<usize> =
        (0..slots.len()).filter(|&i| slots[i].1 != "k" && (slots[i].1 == "nn" || !textual.contains(slots[i].1))).collect();
    let biased = |rng: &mut Rng, all: &[usize]| -> usize {
        let hit: Vec<usize> = all.iter().copied().filter(|&i| textual.contains(slots[i].1)).collect();
        if !hit.is_empty() && rng.chance(7, 10) {
            *rng.pick(&hit)
        } else {
            *rng.pick(all)
        }
    };

    let steps = 10 + rng.below(21);
    let mut hist = vec![];
    for _ in 0..steps {
        let r = rng.below(100);
        let (slot, want_null) = if r < 45 {
            (biased(rng, &value_slots), false)
        } else if r < 80 {
            (biased(rng, &ptr_slots), false)
        } else if r < 90 {
            (biased(rng, &ptr_slots), true)
        } else {
            (*rng.pick(&unrelated), false)
        };
        let (oid, p, k) = slots[slot];
        let cur = state[&(oid, p)].clone();
        let mut v = cur.clone();
        if want_null {
            v = V::Ptr(None);
        } else {
            for _ in 0..6 {
                v = random_value(rng, k, 0);
                if v != cur {
                    break;
                }
            }
            // a pointer with a single admissible target toggles between it and null
            if v == cur && matches!(k, PK::Ptr(_)) && cur != V::Ptr(None) && rng.chance(3, 4) {
                v = V::Ptr(None);
            }
        }
        state.insert((oid, p), v.clone());
        hist.push(node("set", vec![st(oid), st(p), v.sexp()]));
    }
    (world, node("history", hist))
}

// ------------------------------------------------------------------------------------------------
// the header oracle

fn squash(s: &str) -> String {
    s.chars().filter(|c| !c.is_whitespace()).collect()
}

fn cap(s: &str) -> String {
    let mut c = s.chars();
    match c.next() {
        Some(f) => f.to_ascii_uppercase().to_string() + c.as_str(),
        None => String::new(),
    }
}

fn fail(msg: impl Into<String>) -> Sexp {
    node("fail", vec![st(msg.into())])
}

/// Body lines (without the braces) of the member function whose signature line (indent 4) satisfies `pred`.
fn func_body<'a>(lines: &[&'a str], pred: &dyn Fn(&str) -> bool) -> Option<Vec<&'a str>> {
    let i = lines.iter().position(|l| l.starts_with("    ") && !l.starts_with("     ") && pred(l.trim()))?;
    if lines.get(i + 1)?.trim() != "{" {
        return None;
    }
    let mut out = vec![];
    for l in &lines[i + 2..] {
        if *l == "    }" {
            return Some(out);
        }
        out.push(*l);
    }
    None
}

fn field<'a>(n: &'a Sexp, tag: &str) -> Option<&'a [Sexp]> {
    let (_, args) = n.as_node()?;
    args.iter().find_map(|a| match a.as_node() {
        Some((t, xs)) if t == tag => Some(xs),
        _ => None,
    })
}

fn cxx_arg_type(t: &Sexp) -> String {
    if let Some(a) = t.as_atom() {
        return match a {
            "QString" => "const QString &".to_owned(),
            "QVariant" => "const QVariant &".to_owned(),
            other => other.to_owned(),
        };
    }
    match t.as_node() {
        Some(("ptr", xs)) => match xs[0].as_node() {
            Some(("cls", c)) => format!("{}*", c[0].as_str().unwrap_or("?")),
            _ => "?".to_owned(),
        },
        _ => "?".to_owned(),
    }
}

/// `(m cls name (args …) ret kind)` → `QOverload<…>::of(&Cls::name)`
fn signal_pointer(m: &Sexp) -> Option<String> {
    let (tag, f) = m.as_node()?;
    if tag != "m" {
        return None;
    }
    let cls = f[0].as_str()?;
    let name = f[1].as_str()?;
    let (_, args) = f[2].as_node()?;
    let args: Vec<String> = args.iter().map(cxx_arg_type).collect();
    Some(format!("QOverload<{}>::of(&{}::{})", args.join(", "), cls, name))
}

fn sender(obj: &str) -> String {
    if ir::OBJECTS.iter().any(|(i, _)| *i == obj) {
        format!("this->ui_->{obj}")
    } else {
        "this->root_".to_owned()
    }
}

type SenderFn<'a> = &'a dyn Fn(&str) -> String;

/// Checks the real header against the real IR of the plain binding `A<Lhs>`; Ok((distinct deps, observers)).
fn check_header(header: &str, code: &Sexp, lhs: &str) -> Result<(usize, usize), String> {
    check_binding(header, &sender, "a", lhs, &[(vec![], code)])
}

/// Checks the update path of ONE generated binding `<Object><Top>` of the real header against the real IR of its leaf
/// members (`members`: sub-path below the top-level property — empty for a plain binding — and the member's IR):
///  (a) `setup<B>()` connects every distinct static dependency of every member exactly once to `update<B>()`;
///  (b) every member's value function carries the observer snippets of its IR, wired to `update<B>()`;
///  (c) the observer arrays; (d) `setup()` calls `setup<B>` before the first update and `update<B>` once;
///  (e) `update<B>()` writes the property — for a grouped binding by read-modify-write of the WHOLE gadget
///      (`recv->setP(this->eval<B>(recv->p()))`) where `eval<B>(T a)` assigns every member from its value function.
fn check_binding(
    header: &str,
    sender_of: SenderFn,
    object: &str,
    top: &str,
    members: &[(Vec<String>, &Sexp)],
) -> Result<(usize, usize), String> {
    let name = format!("{}{}", cap(object), cap(top));
    let lines: Vec<&str> = header.lines().collect();

    // (a) static dependencies: exactly one connect line per distinct (sender, signal) over all members
    let mut expected: BTreeSet<String> = BTreeSet::new();
    for (_, code) in members {
        let deps = field(code, "deps").ok_or("IR without deps")?;
        for d in deps {
            let l = d.as_list().ok_or("bad dep")?;
            let obj = l[0].as_str().ok_or("bad dep object")?;
            let sig = signal_pointer(&l[1]).ok_or("bad dep signal")?;
            expected.insert(squash(&format!(
                "QObject::connect({}, {}, this->root_, [this]() {{ this->update{}(); }});",
                sender_of(obj),
                sig,
                name
            )));
        }
    }
    let setup = func_body(&lines, &|l| l == format!("void setup{name}()")).ok_or(format!("no function setup{name}"))?;
    let setup_lines: Vec<String> = setup.iter().map(|l| squash(l)).filter(|l| !l.is_empty()).collect();
    for l in &setup_lines {
        if !expected.contains(l) {
            return Err(format!("setup{name}: unexpected line: {l}"));
        }
    }
    for e in &expected {
        let n = setup_lines.iter().filter(|l| *l == e).count();
        if n != 1 {
            return Err(format!("setup{name}: dependency connected {n} times: {e}"));
        }
    }
    if setup_lines.len() != expected.len() {
        return Err(format!("setup{name}: {} connect lines for {} distinct deps", setup_lines.len(), expected.len()));
    }

    // (b), (c) per member
    let mut observers_total = 0usize;
    for (sub, code) in members {
        let fname = format!("{name}{}", sub.iter().map(|x| cap(x)).collect::<String>());
        observers_total += check_value_function(&lines, code, &fname, &name)?;
    }

    // (d) all connections are made before the first evaluation
    let main = func_body(&lines, &|l| l == "void setup()").ok_or("no function setup")?;
    let main: Vec<&str> = main.iter().map(|l| l.trim()).filter(|l| !l.is_empty()).collect();
    let first_update = main.iter().position(|l| l.starts_with("this->update"));
    let last_setup = main.iter().rposition(|l| l.starts_with("this->setup"));
    match (last_setup, first_update) {
        (Some(s), Some(u)) if s < u => {}
        _ => return Err("setup(): a setup call does not precede the first update call".to_owned()),
    }
    if main.iter().filter(|l| **l == format!("this->setup{name}();")).count() != 1 {
        return Err(format!("setup(): this->setup{name}() not called exactly once"));
    }
    if main.iter().filter(|l| **l == format!("this->update{name}();")).count() != 1 {
        return Err(format!("setup(): this->update{name}() not called exactly once"));
    }

    // (e) the update function stores the value
    let update = func_body(&lines, &|l| l == format!("void update{name}()")).ok_or(format!("no function update{name}"))?;
    let recv = squash(&sender_of(object));
    let plain = members.len() == 1 && members[0].0.is_empty();
    if plain {
        let tail = squash(&format!("(this->eval{name}());"));
        let n = update
            .iter()
            .map(|l| squash(l))
            .filter(|l| l.starts_with(&format!("{recv}->")) && l.ends_with(&tail) && l.matches('(').count() == 2)
            .count();
        if n != 1 {
            return Err(format!("update{name}: setter call missing"));
        }
    } else {
        // read-modify-write of the whole gadget
        let mid = squash(&format!("(this->eval{name}({recv}->"));
        let n = update
            .iter()
            .map(|l| squash(l))
            .filter(|l| l.starts_with(&format!("{recv}->")) && l.contains(&mid) && l.ends_with("()));"))
            .count();
        if n != 1 {
            return Err(format!("update{name}: read-modify-write `recv->setP(this->eval{name}(recv->p()))` missing"));
        }
        let gadget = func_body(&lines, &|l| l.contains(&format!(" eval{name}(")) && l.ends_with(" a)"))
            .ok_or(format!("no gadget function eval{name}(T a)"))?;
        let glines: Vec<String> = gadget.iter().map(|l| squash(l)).filter(|l| !l.is_empty()).collect();
        if glines.last().map(|l| l.as_str()) != Some("returna;") {
            return Err(format!("eval{name}(T a): does not end with `return a;`"));
        }
        for (sub, _) in members {
            if sub.len() != 1 {
                return Err(format!("{name}: member path {sub:?} deeper than the scanner supports"));
            }
            let tail = squash(&format!("(this->eval{name}{}());", cap(&sub[0])));
            let n = glines.iter().filter(|l| l.starts_with("a.") && l.ends_with(&tail)).count();
            if n != 1 {
                return Err(format!("eval{name}(T a): member {} assigned {n} times", sub[0]));
            }
        }
        if glines.len() != members.len() + 1 {
            return Err(format!("eval{name}(T a): {} lines for {} members", glines.len(), members.len()));
        }
    }
    Ok((expected.len(), observers_total))
}

/// (b), (c): the value function `eval<fname>()` of one leaf member follows its IR block by block; every observe
/// statement is the 7-line snippet on the right local/signal wired to `update<update_name>()`, immediately followed by
/// the read; the observer array `observed<fname>_[N]`.  Ok(observers).
fn check_value_function(lines: &[&str], code: &Sexp, fname: &str, update_name: &str) -> Result<usize, String> {
    let name = fname;
    let blocks = field(code, "blocks").ok_or("IR without blocks")?;
    let observers = field(code, "observers").and_then(|x| x.first()).and_then(|x| x.as_usize()).ok_or("IR without observers")?;
    // (b) observers in the value function, block by block and statement by statement
    let eval = func_body(lines, &|l| l.ends_with(&format!(" eval{name}()"))).ok_or(format!("no function eval{name}"))?;
    let mut prologue: Vec<String> = vec![];
    let mut hblocks: BTreeMap<usize, Vec<String>> = BTreeMap::new();
    let mut cur: Option<usize> = None;
    for l in &eval {
        let t = l.trim();
        if t.is_empty() {
            continue;
        }
        if let Some(n) = t.strip_prefix('b').and_then(|x| x.strip_suffix(':')).and_then(|x| x.parse::<usize>().ok()) {
            if hblocks.insert(n, vec![]).is_some() {
                return Err(format!("eval{name}: duplicate label b{n}"));
            }
            cur = Some(n);
            continue;
        }
        match cur {
            None => prologue.push(squash(t)),
            Some(n) => hblocks.get_mut(&n).unwrap().push(squash(t)),
        }
    }
    let obs_decl = squash(&format!("auto &observed = observed{name}_;"));
    let upd_decl = squash(&format!("const auto update = [this]() {{ this->update{update_name}(); }};"));
    if observers > 0 {
        if prologue.iter().filter(|l| **l == obs_decl).count() != 1 {
            return Err(format!("eval{name}: missing `auto &observed`"));
        }
        if prologue.iter().filter(|l| **l == upd_decl).count() != 1 {
            return Err(format!("eval{name}: missing `const auto update`"));
        }
    } else if prologue.iter().any(|l| l.contains("observed")) {
        return Err(format!("eval{name}: observer prologue without observers"));
    }
    if hblocks.len() != blocks.len() {
        return Err(format!("eval{name}: {} labelled blocks for {} IR blocks", hblocks.len(), blocks.len()));
    }
    let mut handles: BTreeSet<usize> = BTreeSet::new();
    for (bi, b) in blocks.iter().enumerate() {
        let (_, bf) = b.as_node().ok_or("bad block")?;
        let (_, stmts) = bf[0].as_node().ok_or("bad stmts")?;
        let hl = hblocks.get(&bi).ok_or(format!("eval{name}: no label b{bi}"))?;
        let mut at = 0usize;
        let mut k = 0usize;
        while k < stmts.len() {
            let (tag, sf) = stmts[k].as_node().ok_or("bad stmt")?;
            if tag == "observe" {
                let h = sf[0].as_usize().ok_or("bad observer handle")?;
                let l = sf[1].as_usize().ok_or("bad observer local")?;
                let sig = signal_pointer(&sf[2]).ok_or("bad observer signal")?;
                if !handles.insert(h) {
                    return Err(format!("observer {h} used twice in the IR"));
                }
                if h >= observers {
                    return Err(format!("observer {h} out of range (observers {observers})"));
                }
                let snippet = [
                    format!("if (Q_UNLIKELY(!observed[{h}].connection || observed[{h}].object != a{l})) {{"),
                    format!("QObject::disconnect(observed[{h}].connection);"),
                    format!("if (a{l}) {{"),
                    format!("observed[{h}].connection = QObject::connect(a{l}, {sig}, this->root_, update);"),
                    "}".to_owned(),
                    format!("observed[{h}].object = a{l};"),
                    "}".to_owned(),
                ];
                for (j, want) in snippet.iter().enumerate() {
                    let got = hl.get(at + j).ok_or(format!("eval{name} b{bi}: observer {h} snippet truncated"))?;
                    if *got != squash(want) {
                        return Err(format!("eval{name} b{bi}: observer {h} line {j}: expected `{want}`, got `{got}`"));
                    }
                }
                at += snippet.len();
                // the next IR statement must be the read through the observed local, and so must the next line
                let next = stmts.get(k + 1).ok_or(format!("b{bi}: observe {h} is the last statement"))?;
                let (ntag, nf) = next.as_node().ok_or("bad stmt")?;
                let rv = match ntag {
                    "assign" => &nf[1],
                    "exec" => &nf[0],
                    _ => return Err(format!("b{bi}: observe {h} followed by {ntag}")),
                };
                let (rtag, rf) = rv.as_node().ok_or("bad rvalue")?;
                if rtag != "readprop" {
                    return Err(format!("b{bi}: observe {h} followed by {rtag}"));
                }
                match rf[0].as_node() {
                    Some(("local", lf)) if lf[0].as_usize() == Some(l) => {}
                    _ => return Err(format!("b{bi}: observe {h} of local {l} followed by a read of {}", rf[0].render())),
                }
                let (_, pf) = rf[1].as_node().ok_or("bad property")?;
                let readfn = pf[7].as_str().ok_or("bad read function")?;
                let want = if ntag == "assign" {
                    format!("a{}=a{l}->{readfn}();", nf[0].as_usize().ok_or("bad assign target")?)
                } else {
                    format!("a{l}->{readfn}();")
                };
                let got = hl.get(at).ok_or(format!("eval{name} b{bi}: nothing after observer {h}"))?;
                if *got != want {
                    return Err(format!("eval{name} b{bi}: after observer {h} expected `{want}`, got `{got}`"));
                }
            } else {
                let got = hl.get(at).ok_or(format!("eval{name} b{bi}: statement {k} missing"))?;
                if got.contains("Q_UNLIKELY") || got.contains("observed[") {
                    return Err(format!("eval{name} b{bi}: observer code without observe statement: {got}"));
                }
                at += 1;
            }
            k += 1;
        }
        // terminator lines
        if at >= hl.len() {
            return Err(format!("eval{name} b{bi}: terminator missing"));
        }
        for got in &hl[at..] {
            if got.contains("Q_UNLIKELY") || got.contains("observed[") || got.contains("QObject::connect") {
                return Err(format!("eval{name} b{bi}: observer code in terminator position: {got}"));
            }
        }
    }

    // (c) the observer array
    let prefix = format!("PropertyObserver observed{name}_[");
    let fields: Vec<&str> = lines.iter().map(|l| l.trim()).filter(|l| l.starts_with(&prefix)).collect();
    if observers == 0 {
        if !fields.is_empty() {
            return Err(format!("observer array declared without observers: {}", fields[0]));
        }
    } else {
        let want = format!("{prefix}{observers}];");
        if fields.len() != 1 || fields[0] != want {
            return Err(format!("observer array: expected `{want}`, got {fields:?}"));
        }
    }
    if handles.len() != observers {
        return Err(format!("{} observe statements for {} observers", handles.len(), observers));
    }

    Ok(observers)
}

impl C02 {
    fn header_oracle(&self, args: &[Sexp], mutation: Option<&str>) -> Sexp {
        let (_, kind) = args[2].as_node().expect("kind");
        let lhs = kind[1].as_str().expect("lhs").to_owned();
        let expect = args.get(4).and_then(|e| e.as_node()).and_then(|(t, x)| if t == "expect" { x.first()?.as_atom() } else { None });
        let program = ast::program_of(&args[3]);
        let src = ir::document(&lhs, &program);
        let tr = env::translate(&self.tm, &src, "MyType", Mode::Generate);
        if tr.syntax_errors > 0 {
            return fail(format!("syntax error in generated document: {src}"));
        }
        let (obs, ir_diags) = match ir::observe(&self.tm, &src, "property", &lhs) {
            Ok(x) => x,
            Err(e) => return fail(format!("observe: {}", e.render())),
        };
        if tr.has_error() || !tr.built {
            if mutation.is_some() {
                return node("ok", vec![atom("not-applicable")]);
            }
            if expect == Some("accepted") {
                let msgs: Vec<String> = tr.diags.iter().map(|d| d.message.clone()).collect();
                return fail(format!("program expected to compile was rejected: {msgs:?}"));
            }
            return node("ok", vec![atom("rejected")]);
        }
        let Some(header) = tr.header else {
            return fail(format!("no header although there are no errors (IR diags {})", ir_diags.len()));
        };
        let Some(code) = obs.code else {
            return fail("no IR observed for an accepted program");
        };
        let name = format!("A{}", cap(&lhs));
        let is_const = obs.eval.as_ref().map(|e| e.as_atom() != Some("none")).unwrap_or(false);
        if is_const && mutation.is_some() {
            return node("ok", vec![atom("not-applicable")]);
        }
        if is_const {
            // statically evaluated: the value is in the .ui file and there is no binding
            if header.contains(&format!("setup{name}(")) || header.contains(&format!("update{name}(")) {
                return fail("constant binding has setup/update functions");
            }
            return node("ok", vec![atom("constant")]);
        }
        if let Some(m) = mutation {
            // sensitivity of the scanner: a deliberately damaged header must be refused
            if let Err(e) = check_header(&header, &code, &lhs) {
                return fail(format!("unmutated header refused: {e}"));
            }
            return match mutate(&header, &name, m) {
                None => node("ok", vec![atom("not-applicable")]),
                Some(h2) => match check_header(&h2, &code, &lhs) {
                    Err(e) => node("ok", vec![atom("detected"), st(e)]),
                    Ok(_) => fail(format!("mutation {m} of the header was not detected")),
                },
            };
        }
        match check_header(&header, &code, &lhs) {
            Ok((d, n)) => node("ok", vec![node("deps", vec![num(d)]), node("observers", vec![num(n)])]),
            Err(e) => fail(e),
        }
    }
}



// ------------------------------------------------------------------------------------------------
// generators for grouped targets and whole documents

const FONT_CONST: &[(&str, &str, &str, &str)] = &[
    ("font.pointSize", "12", "pointsize", "12"),
    ("font.bold", "true", "bold", "true"),
    ("font.italic", "false", "italic", "false"),
    ("font.family", "\"Serif\"", "family", "Serif"),
    ("font.underline", "true", "underline", "true"),
    ("font.weight", "75", "weight", "75"),
    ("font.strikeout", "false", "strikeout", "false"),
];
const FONT_DYN: &[(&str, &str)] = &[
    ("font.italic", "b.b"),
    ("font.strikeout", "b.next.b"),
    ("font.family", "o.name"),
    ("font.family", "o.base.next.s"),
    ("font.pointSize", "Math.max(b.i, dv.i)"),
    ("font.underline", "(o.on ? a : b).next.b"),
    ("font.bold", "dv.extra > b.i"),
    ("font.weight", "b.next.peer.n"),
    ("font.kerning", "o.on"),
];
const POLICY_DYN: &[(&str, &str)] = &[
    ("sizePolicy.verticalStretch", "b.i"),
    ("sizePolicy.horizontalStretch", "o.n"),
    ("sizePolicy.verticalStretch", "b.next.i"),
    ("sizePolicy.horizontalStretch", "Math.min(b.i, 3)"),
];

/// the member under test + sibling members of the same gadget
fn grouped_target(rng: &mut Rng, ty: T) -> (String, Vec<Sib>) {
    let policy = ty == T::Int && rng.chance(1, 4);
    let lhs: &str = if policy {
        *rng.pick(&["sizePolicy.horizontalStretch", "sizePolicy.verticalStretch"])
    } else {
        match ty {
            T::Int => *rng.pick(&["font.pointSize", "font.weight"]),
            T::Bool => *rng.pick(&["font.bold", "font.italic", "font.underline", "font.strikeout", "font.kerning"]),
            _ => "font.family",
        }
    };
    let mut used: BTreeSet<String> = BTreeSet::new();
    used.insert(lhs.to_owned());
    let mut sibs = vec![];
    let nc = weighted(rng, &[(25, 0), (50, 1), (25, 2)]) as usize;
    let nd = weighted(rng, &[(45, 0), (40, 1), (15, 2)]) as usize;
    if policy {
        // a constant policy needs both directions ("both horizontal and vertical policies must be specified"), and a
        // stretch the translator evaluates to a constant (`{ let x = a.b == c.d; return 3 }`) needs the policies
        // ("cannot specify stretch without horizontal and vertical policies") — whether the program under test is
        // such a constant is not known here, so the pair is always there (`nc` is still drawn: same random stream);
        // a size policy with dynamic members only is the document generator's `doc-sizepolicy` shape
        let _ = nc;
        {
            for (p, v) in [("sizePolicy.horizontalPolicy", "QSizePolicy.Expanding"), ("sizePolicy.verticalPolicy", "QSizePolicy.Fixed")] {
                sibs.push(Sib { path: p.into(), value: v.into(), dynamic: false, ui: None });
            }
        }
        for _ in 0..nd {
            let (p, v) = *rng.pick(POLICY_DYN);
            if used.insert(p.to_owned()) {
                sibs.push(Sib { path: p.into(), value: v.into(), dynamic: true, ui: None });
            }
        }
    } else {
        for _ in 0..nc {
            let (p, v, t, x) = *rng.pick(FONT_CONST);
            if used.insert(p.to_owned()) {
                sibs.push(Sib { path: p.into(), value: v.into(), dynamic: false, ui: Some((t.into(), x.into())) });
            }
        }
        for _ in 0..nd {
            let (p, v) = *rng.pick(FONT_DYN);
            if used.insert(p.to_owned()) {
                sibs.push(Sib { path: p.into(), value: v.into(), dynamic: true, ui: None });
            }
        }
    }
    rng.shuffle(&mut sibs);
    (lhs.to_owned(), sibs)
}

struct GenDoc {
    src: String,
    expect: Sexp,
    accepted: bool,
    ledger: Vec<(String, Sib)>,
    labels: Vec<String>,
}

struct DocGen<'r> {
    rng: &'r mut Rng,
    labels: BTreeSet<String>,
    /// root.windowTitle is itself bound (then it is not used as a source: no loops)
    title_bound: bool,
}

impl<'r> DocGen<'r> {
    fn lab(&mut self, l: &str) {
        self.labels.insert(l.to_owned());
    }
    fn int(&mut self, d: usize) -> String {
        let n = if d == 0 { 6 } else { 13 };
        match self.rng.below(n) {
            0 => "spin.value".into(),
            1 => "slider.value".into(),
            2 => "combo.currentIndex".into(),
            3 => "vb.i".into(),
            4 => {
                self.lab("doc-chain");
                "vb.next.i".into()
            }
            5 => {
                self.lab("doc-chain");
                "vb.next.peer.n".into()
            }
            6 => {
                self.lab("doc-mathmax");
                let f = *self.rng.pick(&["max", "min"]);
                format!("Math.{f}({}, {})", self.int(d - 1), self.int(d - 1))
            }
            7 => format!("({} + {})", self.int(d - 1), self.int(d - 1)),
            8 => format!("({} ? {} : {})", self.bool(d - 1), self.int(d - 1), self.int(d - 1)),
            9 => {
                // the same property through the same path twice
                self.lab("doc-samepath");
                let x = self.int(0);
                format!("({x} - {x})")
            }
            10 => {
                // the same property of the same object through two different paths
                self.lab("doc-twopaths");
                "(vb.i + vb2.next.i)".into()
            }
            11 => {
                self.lab("doc-subscript");
                format!("vb.ints[{}]", self.int(0))
            }
            _ => format!("({} * 2)", self.int(d - 1)),
        }
    }
    fn bool(&mut self, d: usize) -> String {
        let n = if d == 0 { 4 } else { 9 };
        match self.rng.below(n) {
            0 => "check.checked".into(),
            1 => "vb.b".into(),
            2 => {
                self.lab("doc-chain");
                "vb.next.b".into()
            }
            3 => "btn2.checked".into(),
            4 => format!("({} > {})", self.int(d - 1), self.int(d - 1)),
            5 => format!("!{}", self.bool(d - 1)),
            6 => format!("({} && {})", self.bool(d - 1), self.bool(d - 1)),
            7 => format!("({} == {})", self.str(d - 1), self.str(d - 1)),
            _ => format!("({} || {})", self.bool(d - 1), self.bool(d - 1)),
        }
    }
    fn str(&mut self, d: usize) -> String {
        let n = if d == 0 { 5 } else { 11 };
        match self.rng.below(n) {
            0 => "edit.text".into(),
            1 => "combo.currentText".into(),
            2 => "vb.s".into(),
            3 => {
                self.lab("doc-chain");
                "vb.next.s".into()
            }
            4 => {
                if self.title_bound {
                    "edit.text".into()
                } else {
                    self.lab("doc-root-source");
                    "root.windowTitle".into()
                }
            }
            5 => {
                self.lab("doc-arg");
                format!("\"%1-%2\".arg({}).arg({})", self.str(d - 1), self.int(d - 1))
            }
            6 => format!("({} + {})", self.str(d - 1), self.str(d - 1)),
            7 => {
                self.lab("doc-subscript");
                format!("vb.items[{}]", self.int(0))
            }
            8 => format!("({} ? {} : {})", self.bool(d - 1), self.str(d - 1), self.str(d - 1)),
            9 => {
                self.lab("doc-arg");
                format!("qsTr(\"n=%1\").arg({})", self.int(d - 1))
            }
            _ => {
                self.lab("doc-chain");
                "vb.next.next.s".into()
            }
        }
    }
    fn value(&mut self, ty: char, d: usize) -> String {
        match ty {
            'i' => self.int(d),
            'b' => self.bool(d),
            _ => self.str(d),
        }
    }
}

const FONT_MEMBERS: &[(&str, char, &str, &str, &str)] = &[
    // member, type, constant QML value, .ui tag, .ui text
    ("family", 's', "\"Serif\"", "family", "Serif"),
    ("pointSize", 'i', "12", "pointsize", "12"),
    ("bold", 'b', "true", "bold", "true"),
    ("italic", 'b', "false", "italic", "false"),
    ("underline", 'b', "true", "underline", "true"),
    ("weight", 'i', "75", "weight", "75"),
    ("strikeout", 'b', "true", "strikeout", "true"),
];

fn gen_document(rng: &mut Rng) -> GenDoc {
    let special = rng.below(100);
    let mut g = DocGen { rng, labels: BTreeSet::new(), title_bound: false };
    let mut ledger: Vec<(String, Sib)> = vec![];
    let mut root_lines: Vec<String> = vec![];
    let mut lay_lines: Vec<String> = vec![];
    let mut tail: Vec<String> = vec![];
    let mut expect = node("expect", vec![atom("accepted")]);
    let mut accepted = true;
    let depth = 1 + g.rng.below(3);
    let mut bind = |g: &mut DocGen, out: &mut Vec<String>, ind: &str, obj: &str, path: &str, ty: char, ledger: &mut Vec<(String, Sib)>| {
        let v = g.value(ty, depth);
        out.push(format!("{ind}{path}: {v}"));
        ledger.push((obj.to_owned(), Sib { path: path.to_owned(), value: String::new(), dynamic: true, ui: None }));
    };

    // root
    if g.rng.chance(1, 3) {
        g.title_bound = true;
        g.lab("doc-root-target");
        bind(&mut g, &mut root_lines, "    ", "root", "windowTitle", 's', &mut ledger);
    }
    // the layout itself as a binding target
    if g.rng.chance(1, 3) {
        g.lab("doc-layout-target");
        bind(&mut g, &mut lay_lines, "        ", "lay", "spacing", 'i', &mut ledger);
    }
    // target widgets
    let n_targets = 1 + g.rng.below(3);
    let mut widgets: Vec<String> = vec![];
    for t in 0..n_targets {
        let (cls, id, plain): (&str, String, &[(&str, char)]) = match (t + g.rng.below(3)) % 3 {
            0 => ("QLabel", format!("label{t}"), &[("text", 's'), ("toolTip", 's'), ("enabled", 'b'), ("indent", 'i'), ("wordWrap", 'b'), ("margin", 'i')]),
            1 => ("QPushButton", format!("push{t}"), &[("text", 's'), ("enabled", 'b'), ("flat", 'b'), ("checkable", 'b'), ("autoRepeatDelay", 'i'), ("statusTip", 's')]),
            _ => ("QGroupBox", format!("box{t}"), &[("title", 's'), ("checkable", 'b'), ("enabled", 'b'), ("toolTip", 's')]),
        };
        let mut lines: Vec<String> = vec![format!("            id: {id}")];
        let ind = "            ";
        // plain bindings
        let mut props: Vec<(&str, char)> = plain.to_vec();
        g.rng.shuffle(&mut props);
        let np = g.rng.below(3);
        for (p, ty) in props.into_iter().take(np) {
            bind(&mut g, &mut lines, ind, &id, p, ty, &mut ledger);
        }
        // grouped font
        if g.rng.chance(7, 10) {
            g.lab("doc-font");
            let mut ms = FONT_MEMBERS.to_vec();
            g.rng.shuffle(&mut ms);
            let n = 1 + g.rng.below(4);
            let (mut nc, mut nd) = (0, 0);
            for (i, (m, ty, cv, tag, text)) in ms.into_iter().take(n).enumerate() {
                // the first member is dynamic, the second constant, then random: mixed maps are the common case
                let dynamic = match i {
                    0 => true,
                    1 => false,
                    _ => g.rng.chance(1, 2),
                };
                let path = format!("font.{m}");
                if dynamic {
                    nd += 1;
                    bind(&mut g, &mut lines, ind, &id, &path, ty, &mut ledger);
                } else {
                    nc += 1;
                    lines.push(format!("{ind}{path}: {cv}"));
                    ledger.push((id.clone(), Sib { path, value: String::new(), dynamic: false, ui: Some((tag.into(), text.into())) }));
                }
            }
            g.lab(&format!("doc-font-dyn{}-const{}", nd.min(2), nc.min(2)));
        }
        // grouped size policy
        if g.rng.chance(3, 10) {
            g.lab("doc-sizepolicy");
            if g.rng.chance(1, 2) {
                for (p, v) in [("sizePolicy.horizontalPolicy", "QSizePolicy.Expanding"), ("sizePolicy.verticalPolicy", "QSizePolicy.Minimum")] {
                    lines.push(format!("{ind}{p}: {v}"));
                    ledger.push((id.clone(), Sib { path: p.into(), value: String::new(), dynamic: false, ui: None }));
                }
            }
            let m = *g.rng.pick(&["sizePolicy.horizontalStretch", "sizePolicy.verticalStretch"]);
            bind(&mut g, &mut lines, ind, &id, m, 'i', &mut ledger);
        }
        // a callback next to the bindings (no subscription of its own; its setup precedes the first update)
        if cls == "QPushButton" && g.rng.chance(1, 3) {
            g.lab("doc-callback");
            lines.push(format!("{ind}onClicked: edit.text = {}", g.str(1)));
        }
        widgets.push(format!("        {cls} {{\n{}\n        }}", lines.join("\n")));
    }
    // an action as a binding target
    if g.rng.chance(1, 3) {
        g.lab("doc-action-target");
        let mut lines = vec!["        id: act".to_owned()];
        bind(&mut g, &mut lines, "        ", "act", "text", 's', &mut ledger);
        if g.rng.chance(1, 2) {
            bind(&mut g, &mut lines, "        ", "act", "enabled", 'b', &mut ledger);
        }
        tail.push(format!("    QAction {{\n{}\n    }}", lines.join("\n")));
    }
    // documents that must be rejected: a dynamic binding the generator cannot serve
    match special {
        0..=7 => {
            g.lab("doc-attached-dynamic");
            let v = g.bool(1);
            widgets.push(format!(
                "        QLabel {{\n            id: attached0\n            QLayout.alignment: {v} ? Qt.AlignLeft : Qt.AlignRight\n        }}"
            ));
            expect = node("expect", vec![atom("rejected"), st("dynamic binding to attached property")]);
            accepted = false;
        }
        8..=17 => {
            g.lab("doc-nested-dynamic");
            let v = g.bool(1);
            let mut lines = vec!["            id: view".to_owned()];
            if g.rng.chance(2, 3) {
                lines.push("            horizontalHeader.defaultSectionSize: 80".to_owned());
            }
            lines.push(format!("            horizontalHeader.stretchLastSection: {v}"));
            if g.rng.chance(1, 3) {
                lines.push("            verticalHeader.visible: false".to_owned());
            }
            widgets.push(format!("        QTableView {{\n{}\n        }}", lines.join("\n")));
            expect = node("expect", vec![atom("rejected"), st("nested dynamic binding is not supported")]);
            accepted = false;
        }
        18..=23 => {
            g.lab("doc-unobservable");
            // QLabel::text has no NOTIFY signal
            widgets.push("        QLabel {\n            id: stale0\n            toolTip: plain.text + edit.text\n        }".to_owned());
            expect = node("expect", vec![atom("rejected"), st("unobservable property")]);
            accepted = false;
        }
        24..=27 => {
            // pseudo properties consumed by the constant pass: a dynamic value must be diagnosed, not dropped
            g.lab("doc-pseudo-dynamic");
            if g.rng.chance(1, 2) {
                widgets.push("        QComboBox {\n            id: pseudo0\n            model: [edit.text, \"b\"]\n        }".to_owned());
            } else {
                root_lines.push("    actions: [check.checked ? pact1 : pact2]".to_owned());
                tail.push("    QAction { id: pact1 }\n    QAction { id: pact2 }".to_owned());
            }
            expect = node("expect", vec![atom("rejected")]);
            accepted = false;
        }
        _ => {}
    }
    let mut src = String::from("import qmluic.QtWidgets\nQWidget {\n    id: root\n");
    for l in &root_lines {
        src.push_str(l);
        src.push('\n');
    }
    src.push_str("    QVBoxLayout {\n        id: lay\n");
    for l in &lay_lines {
        src.push_str(l);
        src.push('\n');
    }
    for w in [
        "QLineEdit { id: edit }",
        "QCheckBox { id: check }",
        "QSpinBox { id: spin }",
        "QSlider { id: slider }",
        "QComboBox { id: combo }",
        "QPushButton { id: btn2; checkable: true }",
        "QLabel { id: plain; text: \"plain\" }",
        "VBase { id: vb }",
        "VBase { id: vb2 }",
    ] {
        src.push_str(&format!("        {w}\n"));
    }
    for w in &widgets {
        src.push_str(w);
        src.push('\n');
    }
    src.push_str("    }\n");
    for t in &tail {
        src.push_str(t);
        src.push('\n');
    }
    src.push_str("}\n");
    let mut labels: Vec<String> = g.labels.iter().cloned().collect();
    labels.push(if accepted { "doc-expect-accepted".into() } else { "doc-expect-rejected".into() });
    GenDoc { src, expect, accepted, ledger, labels }
}

// ------------------------------------------------------------------------------------------------
// grouped (gadget-map) bindings and whole documents: every leaf binding as the REAL pipeline sees it

/// One leaf binding (`text`, `font.family`, …) of one object, observed through the read-only hook after the whole
/// translation ("final" phase: the evaluated-constant flag is the one the passes used).
#[derive(Clone, Debug)]
struct Leaf {
    object: String,
    kind: String,
    path: String,
    code: Sexp,
    constant: bool,
}

fn translate_observed(tm: &TypeMap, src: &str) -> (env::Translation, Vec<Leaf>) {
    let evs: Rc<RefCell<Vec<Leaf>>> = Rc::new(RefCell::new(vec![]));
    let cap = evs.clone();
    verif_hook::set_observer(Box::new(move |ev| {
        if ev.phase != "final" {
            return;
        }
        cap.borrow_mut().push(Leaf {
            object: ev.object_name.to_owned(),
            kind: ev.kind.to_owned(),
            path: ev.path.clone(),
            code: crate::irser::code_body(ev.code),
            constant: ev.evaluated_constant,
        });
    }));
    let tr = env::translate(tm, src, "MyType", Mode::Generate);
    verif_hook::clear_observer();
    let mut v = evs.borrow().clone();
    v.sort_by(|a, b| (&a.object, &a.kind, &a.path).cmp(&(&b.object, &b.kind, &b.path)));
    (tr, v)
}

/// A sibling member next to the binding under test: `(sib "font.pointSize" "12" const "pointsize" "12")` or
/// `(sib "font.italic" "b.b" dyn)`.
#[derive(Clone, Debug)]
struct Sib {
    path: String,
    value: String,
    dynamic: bool,
    ui: Option<(String, String)>,
}

impl Sib {
    fn sexp(&self) -> Sexp {
        let mut v = vec![st(self.path.clone()), st(self.value.clone()), atom(if self.dynamic { "dyn" } else { "const" })];
        if let Some((t, x)) = &self.ui {
            v.push(st(t.clone()));
            v.push(st(x.clone()));
        }
        node("sib", v)
    }
    fn of(s: &Sexp) -> Option<Sib> {
        let (tag, f) = s.as_node()?;
        if tag != "sib" && tag != "b" {
            return None;
        }
        let off = usize::from(tag == "b");
        Some(Sib {
            path: f.get(off)?.as_str()?.to_owned(),
            value: if tag == "b" { String::new() } else { f.get(1)?.as_str()?.to_owned() },
            dynamic: f.get(if tag == "b" { 2 } else { 2 })?.as_atom()? == "dyn",
            ui: match (f.get(3).and_then(|x| x.as_str()), f.get(4).and_then(|x| x.as_str())) {
                (Some(t), Some(x)) => Some((t.to_owned(), x.to_owned())),
                _ => None,
            },
        })
    }
}

fn siblings_of(args: &[Sexp]) -> Vec<Sib> {
    args.iter()
        .find_map(|a| match a.as_node() {
            Some(("siblings", xs)) => Some(xs.iter().filter_map(Sib::of).collect()),
            _ => None,
        })
        .unwrap_or_default()
}

/// `ir::document` with sibling bindings added to object `a`
fn document_with(lhs: &str, program: &Program, sibs: &[Sib]) -> String {
    let src = ir::document(lhs, program);
    if sibs.is_empty() {
        return src;
    }
    let anchor = "        id: a\n";
    let at = src.find(anchor).expect("object a") + anchor.len();
    let mut out = String::from(&src[..at]);
    for s in sibs {
        out.push_str(&format!("        {}: {}\n", s.path, s.value));
    }
    out.push_str(&src[at..]);
    out
}

/// the properties of object `name` in the .ui text (up to its first child / its end)
fn ui_object_segment<'a>(ui: &'a str, name: &str) -> Option<&'a str> {
    let at = ui.find(&format!(" name=\"{name}\">"))?;
    let rest = &ui[at..];
    let end = ["<widget ", "<layout ", "<item", "</widget>", "</layout>", "<action ", "<addaction "]
        .iter()
        .filter_map(|p| rest[1..].find(p).map(|i| i + 1))
        .min()
        .unwrap_or(rest.len());
    Some(&rest[..end])
}

struct DocVerdict {
    bindings: usize,
    deps: usize,
    observers: usize,
    members: usize,
}

/// The document-level oracle: every leaf the real pipeline (or the generator's ledger) considers dynamic has an update
/// path in the real header, constant members stay embedded, there is no binding function without a dynamic leaf.
fn check_document(
    header: &str,
    ui: &str,
    root: &str,
    leaves: &[Leaf],
    ledger: &[(String, Sib)],
) -> Result<DocVerdict, String> {
    let sender_of = |o: &str| if o == root { "this->root_".to_owned() } else { format!("this->ui_->{o}") };
    for (obj, b) in ledger {
        let leaf = leaves.iter().find(|l| l.object == *obj && l.kind == "property" && l.path == b.path);
        match leaf {
            None => return Err(format!("binding {obj}.{} not seen by the pipeline", b.path)),
            Some(l) if b.dynamic && l.constant => {
                return Err(format!("dynamic binding {obj}.{} was treated as a constant", b.path))
            }
            _ => {}
        }
        if let (false, Some((tag, text))) = (b.dynamic, &b.ui) {
            let seg = ui_object_segment(ui, obj).ok_or(format!("object {obj} not in the .ui"))?;
            if !(seg.contains(&format!("<{tag}>{text}</{tag}>")) || seg.contains(&format!("<{tag} notr=\"true\">{text}</{tag}>"))) {
                return Err(format!("constant member {obj}.{} = {text} is not embedded in the .ui", b.path));
            }
        }
    }
    // groups: (object, top-level property) → leaves
    let mut groups: BTreeMap<(String, String), Vec<&Leaf>> = BTreeMap::new();
    for l in leaves.iter().filter(|l| l.kind == "property") {
        let top = l.path.split('.').next().unwrap().to_owned();
        groups.entry((l.object.clone(), top)).or_default().push(l);
    }
    let mut v = DocVerdict { bindings: 0, deps: 0, observers: 0, members: 0 };
    for ((obj, top), ls) in &groups {
        let name = format!("{}{}", cap(obj), cap(top));
        if ls.iter().all(|l| l.constant) {
            if header.contains(&format!("void setup{name}()")) || header.contains(&format!("void update{name}()")) {
                return Err(format!("constant binding {obj}.{top} has setup/update functions"));
            }
            continue;
        }
        let members: Vec<(Vec<String>, &Sexp)> =
            ls.iter().map(|l| (l.path.split('.').skip(1).map(|x| x.to_owned()).collect(), &l.code)).collect();
        let (d, n) = check_binding(header, &sender_of, obj, top, &members)
            .map_err(|e| format!("dynamic binding {obj}.{top} has no (complete) update path: {e}"))?;
        v.bindings += 1;
        v.deps += d;
        v.observers += n;
        v.members += members.len();
    }
    // no binding without a dynamic leaf, none missing
    let lines: Vec<&str> = header.lines().collect();
    let at = lines.iter().position(|l| l.trim() == "enum class BindingIndex : unsigned {").ok_or("no BindingIndex")?;
    let n_index = lines[at + 1..].iter().take_while(|l| l.trim() != "};").filter(|l| !l.trim().is_empty()).count();
    if n_index != v.bindings {
        return Err(format!("{n_index} bindings in the header for {} dynamic (groups of) bindings", v.bindings));
    }
    Ok(v)
}

/// damages the header of a grouped binding; None if not applicable
fn mutate_grouped(header: &str, m: &str) -> Option<String> {
    let mut lines: Vec<String> = header.lines().map(|l| l.to_owned()).collect();
    match m {
        "drop-member" => {
            let i = lines.iter().position(|l| l.trim().starts_with("a.set") && l.contains("(this->eval"))?;
            lines.remove(i);
        }
        "no-rmw" => {
            let i = lines.iter().position(|l| l.contains("(this->eval") && l.trim_end().ends_with("()));"))?;
            let at = lines[i].find("(this->eval")? + 1;
            let open = lines[i][at..].find('(')? + at;
            lines[i] = format!("{}({{}}));", &lines[i][..open]);
        }
        "drop-group" => {
            let i = lines.iter().position(|l| l.contains("(this->eval") && l.trim_end().ends_with("()));"))?;
            let at = lines[i].find("(this->eval")? + "(this->eval".len();
            let open = lines[i][at..].find('(')? + at;
            let name = lines[i][at..open].to_owned();
            lines.retain(|l| l.trim() != format!("this->setup{name}();") && l.trim() != format!("this->update{name}();"));
        }
        "drop-connect" => {
            let i = lines.iter().position(|l| l.contains("QObject::connect(") && l.contains("[this]() { this->update"))?;
            lines.remove(i);
        }
        _ => return None,
    }
    Some(lines.join("\n"))
}

const GROUPED_MUTATIONS: &[&str] = &["drop-member", "no-rmw", "drop-group", "drop-connect"];

impl C02 {
    /// `(build …)`-shaped answer (the real IR of binding `lhs` of object a) for a document with siblings
    fn ir_answer(&self, src: &str, lhs: &str) -> Sexp {
        let (obs, diags) = match ir::observe(&self.tm, src, "property", lhs) {
            Ok(x) => x,
            Err(e) => return e,
        };
        let n = obs.built_diags.min(diags.len());
        let mut dv = vec![atom("diags")];
        dv.extend(diags[..n].iter().filter(|d| d.is_error).map(|d| st(d.message.clone())));
        match obs.code {
            Some(code) => node("built", vec![code, node("eval", vec![obs.eval.unwrap_or(atom("_"))]), list(dv)]),
            None => node("rejected", vec![list(dv)]),
        }
    }

    fn doc_verdict(&self, src: &str, root: &str, expect: &Sexp, ledger: &[(String, Sib)], mutation: Option<&str>) -> Sexp {
        let (tr, leaves) = translate_observed(&self.tm, src);
        if tr.syntax_errors > 0 {
            return fail(format!("syntax error in generated document: {src}"));
        }
        let msgs: Vec<String> = tr.diags.iter().filter(|d| d.is_error).map(|d| d.message.clone()).collect();
        let (want_accept, want_msg) = match expect.as_node() {
            Some(("expect", f)) => match f.first().and_then(|x| x.as_atom()) {
                Some("accepted") => (Some(true), None),
                Some("rejected") => (Some(false), f.get(1).and_then(|x| x.as_str())),
                _ => (None, None),
            },
            _ => (None, None),
        };
        if !tr.accepted() {
            if mutation.is_some() {
                return node("ok", vec![atom("not-applicable")]);
            }
            if want_accept == Some(true) {
                return fail(format!("document expected to compile was rejected: {msgs:?}"));
            }
            if let Some(m) = want_msg {
                if !msgs.iter().any(|x| x.contains(m)) {
                    return fail(format!("rejected, but not with `{m}`: {msgs:?}"));
                }
            }
            return node("ok", vec![atom("rejected"), st(msgs.first().cloned().unwrap_or_default())]);
        }
        if want_accept == Some(false) {
            // "accepted although a dynamic binding has no update path" is the failure the property is about
            return fail(format!(
                "document accepted without diagnostic although it holds a dynamic binding that cannot be generated ({})",
                want_msg.unwrap_or("?")
            ));
        }
        let Some(header) = tr.header else {
            return fail("no header although there are no errors");
        };
        let ui = tr.ui.unwrap_or_default();
        if let Some(m) = mutation {
            if let Err(e) = check_document(&header, &ui, root, &leaves, ledger) {
                return fail(format!("unmutated header refused: {e}"));
            }
            return match mutate_grouped(&header, m) {
                None => node("ok", vec![atom("not-applicable")]),
                Some(h2) => match check_document(&h2, &ui, root, &leaves, ledger) {
                    Err(e) => node("ok", vec![atom("detected"), st(e)]),
                    Ok(_) => fail(format!("mutation {m} of the header was not detected")),
                },
            };
        }
        match check_document(&header, &ui, root, &leaves, ledger) {
            Ok(v) => node(
                "ok",
                vec![
                    node("bindings", vec![num(v.bindings)]),
                    node("members", vec![num(v.members)]),
                    node("deps", vec![num(v.deps)]),
                    node("observers", vec![num(v.observers)]),
                ],
            ),
            Err(e) => fail(e),
        }
    }

    /// `(c02-header <4 build args> (expect X) (siblings …))` for a grouped target / a target with siblings
    fn grouped_oracle(&self, args: &[Sexp], mutation: Option<&str>) -> Sexp {
        let (_, kind) = args[2].as_node().expect("kind");
        let lhs = kind[1].as_str().expect("lhs").to_owned();
        let program = ast::program_of(&args[3]);
        let sibs = siblings_of(args);
        let src = document_with(&lhs, &program, &sibs);
        let expect = args.iter().find(|a| matches!(a.as_node(), Some(("expect", _)))).cloned().unwrap_or(node("expect", vec![atom("any")]));
        // `unobservable` = must be rejected with that diagnostic
        let expect = match expect.as_node() {
            Some((_, f)) if f.first().and_then(|x| x.as_atom()) == Some("unobservable") => {
                node("expect", vec![atom("rejected"), st("unobservable property")])
            }
            _ => expect,
        };
        let mut ledger: Vec<(String, Sib)> = sibs.iter().map(|s| ("a".to_owned(), s.clone())).collect();
        // the binding under test: certainly dynamic when it is a top-level expression that reads a property
        let main_dynamic = matches!(&program, Program::Stmt(Stmt::Expr(e)) if expr_reads(e));
        ledger.push(("a".to_owned(), Sib { path: lhs.clone(), value: String::new(), dynamic: main_dynamic, ui: None }));
        self.doc_verdict(&src, "", &expect, &ledger, mutation)
    }

    /// `(c02-doc (src "qml") (root "id") (expect …) (ledger (b "obj" "path" dyn|const ["uitag" "text"])…) [(mutation "m")])`
    fn doc_oracle(&self, args: &[Sexp]) -> Sexp {
        let get = |tag: &str| args.iter().find_map(|a| match a.as_node() {
            Some((t, f)) if t == tag => Some(f),
            _ => None,
        });
        let src = get("src").and_then(|f| f.first()?.as_str()).expect("src");
        let root = get("root").and_then(|f| f.first()?.as_str()).expect("root");
        let expect = args.iter().find(|a| matches!(a.as_node(), Some(("expect", _)))).cloned().unwrap_or(node("expect", vec![atom("any")]));
        let ledger: Vec<(String, Sib)> = get("ledger")
            .map(|f| {
                f.iter()
                    .filter_map(|b| {
                        let (_, x) = b.as_node()?;
                        Some((x.first()?.as_str()?.to_owned(), Sib::of(b)?))
                    })
                    .collect()
            })
            .unwrap_or_default();
        let mutation = get("mutation").and_then(|f| f.first()?.as_str());
        self.doc_verdict(src, root, &expect, &ledger, mutation)
    }
}

const MUTATIONS: &[&str] = &[
    "drop-connect",
    "dup-connect",
    "wrong-signal",
    "wrong-sender",
    "drop-observer",
    "observer-local",
    "observer-signal",
    "observer-after-read",
    "array-size",
    "drop-array",
    "update-before-setup",
    "drop-setter",
];

/// Damages the header of binding `name` in one specific way; None if the mutation does not apply.
fn mutate(header: &str, name: &str, m: &str) -> Option<String> {
    let mut lines: Vec<String> = header.lines().map(|l| l.to_owned()).collect();
    let end_of = |lines: &[String], at: usize| (at..lines.len()).find(|&i| lines[i] == "    }");
    let setup_at = lines.iter().position(|l| l.trim() == format!("void setup{name}()"))?;
    let setup_end = end_of(&lines, setup_at)?;
    let eval_at = lines.iter().position(|l| l.trim_end().ends_with(&format!(" eval{name}()")))?;
    let eval_end = end_of(&lines, eval_at)?;
    let connect = (setup_at..setup_end).find(|&i| lines[i].contains("QObject::connect("));
    let snippet = (eval_at..eval_end).find(|&i| lines[i].contains("Q_UNLIKELY"));
    match m {
        "drop-connect" => {
            lines.remove(connect?);
        }
        "dup-connect" => {
            let i = connect?;
            let l = lines[i].clone();
            lines.insert(i, l);
        }
        "wrong-signal" => {
            let i = connect?;
            lines[i] = lines[i].replacen("Changed)", "Changed2)", 1);
        }
        "wrong-sender" => {
            let i = connect?;
            lines[i] = if lines[i].contains("(this->ui_->a,") {
                lines[i].replacen("(this->ui_->a,", "(this->ui_->b,", 1)
            } else {
                let at = lines[i].find("(this->ui_->")? + "(this->ui_->".len();
                let comma = lines[i][at..].find(',')? + at;
                format!("{}a{}", &lines[i][..at], &lines[i][comma..])
            };
        }
        "drop-observer" => {
            let i = snippet?;
            lines.drain(i..i + 7);
        }
        "observer-local" => {
            let i = snippet?;
            lines[i] = lines[i].replacen(".object != a", ".object != a9", 1);
        }
        "observer-signal" => {
            let i = snippet? + 3;
            lines[i] = lines[i].replacen("Changed)", "Changed2)", 1);
        }
        "observer-after-read" => {
            let i = snippet?;
            let sn: Vec<String> = lines.drain(i..i + 7).collect();
            for (j, l) in sn.into_iter().enumerate() {
                lines.insert(i + 1 + j, l);
            }
        }
        "array-size" | "drop-array" => {
            let prefix = format!("PropertyObserver observed{name}_[");
            let i = lines.iter().position(|l| l.trim().starts_with(&prefix))?;
            if m == "drop-array" {
                lines.remove(i);
            } else {
                let open = lines[i].find('[')?;
                let close = lines[i].find(']')?;
                let n: usize = lines[i][open + 1..close].parse().ok()?;
                lines[i] = format!("{}{}{}", &lines[i][..open + 1], n + 1, &lines[i][close..]);
            }
        }
        "update-before-setup" => {
            let at = lines.iter().position(|l| l.trim() == "void setup()")?;
            let end = end_of(&lines, at)?;
            let s = (at..end).find(|&i| lines[i].trim().starts_with("this->setup"))?;
            let u = (at..end).find(|&i| lines[i].trim().starts_with("this->update"))?;
            lines.swap(s, u);
        }
        "drop-setter" => {
            let pat = format!("(this->eval{name}());");
            let i = lines.iter().position(|l| l.contains(&pat))?;
            lines.remove(i);
        }
        _ => return None,
    }
    Some(lines.join("\n"))
}

impl Stream for C02 {
    fn generate(&self, seed: u64, thorough: bool) -> Vec<Case> {
        let n = if thorough { 20_000 } else { 1_500 };
        let mut cases = vec![];
        for k in 0..n {
            let mut rng = Rng::fork(seed, "c02", k as u64);
            let f = rng.below(100);
            let flavor = if f < 70 {
                Flavor::Safe
            } else if f < 80 {
                Flavor::Nn
            } else {
                Flavor::Other
            };
            let ty = match flavor {
                Flavor::Other if rng.chance(3, 10) => T::PBase,
                _ => *rng.pick(&[T::Int, T::Int, T::Int, T::Int, T::Bool, T::Bool, T::Bool, T::Str, T::Str]),
            };
            let depth = 1 + rng.below(3) + usize::from(rng.chance(1, 4));
            // what the program is guaranteed to contain
            let plant = match flavor {
                Flavor::Nn => Some(Plant::Nn),
                Flavor::Safe => match rng.below(100) {
                    0..=7 => Some(Plant::K),
                    8..=13 => Some(Plant::Ro),
                    _ => None,
                },
                Flavor::Other if ty.is_ptr() => {
                    if rng.chance(1, 3) {
                        Some(Plant::Pick)
                    } else {
                        None
                    }
                }
                Flavor::Other => match rng.below(100) {
                    0..=29 => Some(Plant::Pick),
                    30..=49 => Some(Plant::Count),
                    50..=74 => Some(Plant::Wo),
                    _ => None,
                },
            };
            // without a plant the remaining `Other` programs mix VBase* / VDerived* (or are plain pointer results)
            let allow_mix = flavor == Flavor::Other && plant.is_none() && !ty.is_ptr();
            let mut wrng = Rng::fork(seed, "c02-world", k as u64);
            let (program, mut labels, hist_safe, expect) = {
                let mut g = G::new(&mut rng, flavor);
                g.allow_mix = allow_mix;
                g.plant = plant;
                g.ptr_result = ty.is_ptr();
                let p = g.program(ty, depth);
                let expect = if flavor == Flavor::Nn {
                    "unobservable"
                } else if g.risky {
                    "any"
                } else {
                    "accepted"
                };
                let hist_safe = !g.unsafe_used && !g.risky && !ty.is_ptr() && flavor != Flavor::Nn;
                let labels: Vec<String> = g.labels.iter().map(|s| s.to_string()).collect();
                (p, labels, hist_safe, expect)
            };
            let (max_chain, textual) = program_facts(&program);
            if max_chain == 2 {
                labels.push("chain2".into());
            } else if max_chain >= 3 {
                labels.push("chain3".into());
            }
            labels.push(ty.label().into());
            labels.push(format!("depth{depth}"));
            labels.push(format!("expect-{expect}"));
            labels.push(
                match flavor {
                    Flavor::Safe => "flavor-safe",
                    Flavor::Nn => "flavor-nn",
                    Flavor::Other => "flavor-other",
                }
                .into(),
            );
            if hist_safe {
                labels.push("hist".into());
            }
            // every 4th non-pointer program is the value of a MEMBER of a gadget property (font.*, sizePolicy.*) of
            // object a, next to 0-2 constant and 0-2 dynamic sibling members of the same gadget
            let mut grng = Rng::fork(seed, "c02-group", k as u64);
            let (lhs, sibs): (String, Vec<Sib>) = if !ty.is_ptr() && grng.chance(1, 4) {
                let (l, s) = grouped_target(&mut grng, ty);
                labels.push("grouped".into());
                labels.push(format!("grouped-{}", l.split('.').next().unwrap()));
                let nc = s.iter().filter(|x| !x.dynamic).count();
                let nd = s.iter().filter(|x| x.dynamic).count();
                labels.push(format!("sib-const{}", nc.min(2)));
                labels.push(format!("sib-dyn{}", nd.min(2)));
                if s.iter().any(|x| x.dynamic && x.value.matches('.').count() >= 2) {
                    labels.push("sib-chain".into());
                }
                (l, s)
            } else {
                (ty.lhs().to_owned(), vec![])
            };
            let grouped = lhs.contains('.');
            let kind = node("kind", vec![atom("prop"), st(lhs.clone())]);
            let build = ir::make_request(kind, &program);
            let (_, build_args) = build.as_node().unwrap();
            let expect_node = node("expect", vec![atom(expect)]);
            let sib_node = node("siblings", sibs.iter().map(|x| x.sexp()).collect());

            let mut a1 = build_args.to_vec();
            a1.push(expect_node.clone());
            if grouped {
                a1.push(sib_node.clone());
            }
            let with = |extra: &str| {
                let mut l = labels.clone();
                l.push(extra.to_owned());
                l
            };
            cases.push(Case { kind: "pred", labels: with("case-covered"), request: node("coveredcheck", a1) });

            let mut a2 = build_args.to_vec();
            a2.push(expect_node.clone());
            if grouped {
                a2.push(sib_node.clone());
            }
            cases.push(Case { kind: "oracle", labels: with("case-header"), request: node("c02-header", a2.clone()) });

            if grouped && k % 5 == 0 && expect == "accepted" {
                let m = *wrng.pick(GROUPED_MUTATIONS);
                a2.push(node("mutation", vec![st(m)]));
                let mut l4 = with("case-mutant");
                l4.push(format!("mut-grouped-{m}"));
                cases.push(Case { kind: "oracle", labels: l4, request: node("c02-header", a2) });
            }
            if !grouped && k % 10 == 0 && expect == "accepted" {
                let m = *wrng.pick(MUTATIONS);
                let mut a4 = build_args.to_vec();
                a4.push(node("mutation", vec![st(m)]));
                let mut l4 = with("case-mutant");
                l4.push(format!("mut-{m}"));
                cases.push(Case { kind: "oracle", labels: l4, request: node("c02-mutant", a4) });
            }
            if hist_safe {
                let (world, history) = world_and_history(&mut wrng, &textual);
                let mut a3 = build_args.to_vec();
                a3.push(world);
                a3.push(history);
                if grouped {
                    a3.push(sib_node.clone());
                }
                cases.push(Case { kind: "pred", labels: with("case-history"), request: node("c02-history", a3) });
            }
        }
        // whole documents over real Qt classes (grouped bindings, layouts, actions, attached, nested maps, …)
        let nd = if thorough { 4_000 } else { 400 };
        for k in 0..nd {
            let mut rng = Rng::fork(seed, "c02-doc", k as u64);
            let d = gen_document(&mut rng);
            let mut args = vec![
                node("src", vec![st(d.src.clone())]),
                node("root", vec![st("root")]),
                d.expect.clone(),
                node("ledger", d.ledger.iter().map(|(o, b)| {
                    let mut v = vec![st(o.clone()), st(b.path.clone()), atom(if b.dynamic { "dyn" } else { "const" })];
                    if let Some((t, x)) = &b.ui {
                        v.push(st(t.clone()));
                        v.push(st(x.clone()));
                    }
                    node("b", v)
                }).collect()),
            ];
            let mut labels = d.labels.clone();
            labels.push("case-doc".into());
            cases.push(Case { kind: "oracle", labels: labels.clone(), request: node("c02-doc", args.clone()) });
            if k % 8 == 0 && d.accepted {
                let m = *rng.pick(GROUPED_MUTATIONS);
                args.push(node("mutation", vec![st(m)]));
                labels.push("case-mutant".into());
                labels.push(format!("mut-doc-{m}"));
                cases.push(Case { kind: "oracle", labels, request: node("c02-doc", args) });
            }
        }
        cases
    }

    fn answer(&self, req: &Sexp) -> Sexp {
        let (tag, args) = req.as_node().expect("request node");
        match tag {
            // the real IR, exactly as the `ir` stream reports it (only the four build arguments are used)
            "coveredcheck" | "c02-history" => {
                let sibs = siblings_of(args);
                if sibs.is_empty() {
                    Stream::answer(&self.ir, &ir::retag(req, "build"))
                } else {
                    let (_, kind) = args[2].as_node().expect("kind");
                    let lhs = kind[1].as_str().expect("lhs");
                    self.ir_answer(&document_with(lhs, &ast::program_of(&args[3]), &sibs), lhs)
                }
            }
            "c02-header" => {
                let (_, kind) = args[2].as_node().expect("kind");
                let grouped = kind[1].as_str().expect("lhs").contains('.') || !siblings_of(args).is_empty();
                if grouped {
                    let m = args.iter().find_map(|a| match a.as_node() {
                        Some(("mutation", f)) => f.first()?.as_str(),
                        _ => None,
                    });
                    self.grouped_oracle(args, m)
                } else {
                    self.header_oracle(args, None)
                }
            }
            "c02-doc" => self.doc_oracle(args),
            // (c02-mutant <4 build args> (mutation "name")): the scanner refuses a damaged header
            "c02-mutant" => {
                let m = args.get(4).and_then(|x| x.as_node()).and_then(|(_, f)| f.first()?.as_str()).expect("mutation");
                self.header_oracle(args, Some(m))
            }
            // debugging aid: the QML document of a request
            "c02-source" => {
                let (_, kind) = args[2].as_node().expect("kind");
                node("source", vec![st(document_with(kind[1].as_str().expect("lhs"), &ast::program_of(&args[3]), &siblings_of(args)))])
            }
            _ => node("bad-request", vec![st(tag)]),
        }
    }
}
