//! Decorates generated object trees with property bindings (constant, dynamic, grouped, attached) and signal
//! handlers, and keeps an independent *ledger* of what was written — what the C04/C14/C20/C08/C16 oracles compare
//! the real outputs with.
use crate::docgen::{family_of, Family, Obj};
use crate::env::qml_string_literal;
use crate::rng::Rng;

#[derive(Clone, Debug, PartialEq)]
pub enum Fate {
    /// constant: must appear in the .ui as `<tag>text</tag>` at `ui_path`
    Const { tag: String, text: String },
    /// dynamic: must appear as update code for this property in the support header
    Dynamic,
    /// signal handler: one `connect` + one `on…` function
    Callback { signal: String },
    /// consumed by the layout (cell computation / arrays), not a property of the .ui
    LayoutPseudo,
}

#[derive(Clone, Debug, PartialEq)]
pub struct Record {
    pub object: String,
    /// left-hand side as written (`text`, `font.bold`, `QLayout.row`, `onClicked`)
    pub lhs: String,
    pub fate: Fate,
}

#[derive(Clone, Copy, Debug, PartialEq)]
pub enum PType {
    Str,
    Bool,
    Int,
    Double,
    Enum(&'static [&'static str]),
    Flags(&'static [&'static str]),
}

/// (property, type, has notify signal usable as a dynamic *source*)
type Prop = (&'static str, PType);

const FOCUS: &[&str] = &["Qt.NoFocus", "Qt.TabFocus", "Qt.ClickFocus", "Qt.StrongFocus", "Qt.WheelFocus"];
const ALIGN: &[&str] = &["Qt.AlignLeft", "Qt.AlignRight", "Qt.AlignHCenter", "Qt.AlignTop", "Qt.AlignBottom", "Qt.AlignVCenter"];
const ORIENT: &[&str] = &["Qt.Horizontal", "Qt.Vertical"];
const TEXTFMT: &[&str] = &["Qt.PlainText", "Qt.RichText", "Qt.AutoText"];
const ECHO: &[&str] = &["QLineEdit.Normal", "QLineEdit.NoEcho", "QLineEdit.Password"];
const FRAME: &[&str] = &["QFrame.NoFrame", "QFrame.Box", "QFrame.Panel", "QFrame.StyledPanel"];
const SIZECONS: &[&str] = &["QLayout.SetDefaultConstraint", "QLayout.SetFixedSize", "QLayout.SetMinimumSize"];
const LAYDIR: &[&str] = &["Qt.LeftToRight", "Qt.RightToLeft"];

const WIDGET_PROPS: &[Prop] = &[
    ("windowTitle", PType::Str),
    ("toolTip", PType::Str),
    ("statusTip", PType::Str),
    ("whatsThis", PType::Str),
    ("accessibleName", PType::Str),
    ("styleSheet", PType::Str),
    ("enabled", PType::Bool),
    ("autoFillBackground", PType::Bool),
    ("acceptDrops", PType::Bool),
    ("minimumWidth", PType::Int),
    ("maximumWidth", PType::Int),
    ("minimumHeight", PType::Int),
    ("maximumHeight", PType::Int),
    ("windowOpacity", PType::Double),
    ("focusPolicy", PType::Enum(FOCUS)),
    ("layoutDirection", PType::Enum(LAYDIR)),
];

fn class_props(class: &str) -> &'static [Prop] {
    match class {
        "QLabel" | "Label1" | "QLabel1" | "KLabel" | "Label" => &[
            ("text", PType::Str),
            ("wordWrap", PType::Bool),
            ("indent", PType::Int),
            ("margin", PType::Int),
            ("openExternalLinks", PType::Bool),
            ("alignment", PType::Flags(ALIGN)),
            ("textFormat", PType::Enum(TEXTFMT)),
        ],
        "QPushButton" | "PushButton1" => &[
            ("text", PType::Str),
            ("checkable", PType::Bool),
            ("flat", PType::Bool),
            ("autoDefault", PType::Bool),
            ("default_", PType::Bool),
            ("autoRepeatDelay", PType::Int),
        ],
        "QLineEdit" => &[
            ("text", PType::Str),
            ("placeholderText", PType::Str),
            ("maxLength", PType::Int),
            ("readOnly", PType::Bool),
            ("clearButtonEnabled", PType::Bool),
            ("echoMode", PType::Enum(ECHO)),
        ],
        "QCheckBox" | "QRadioButton" => &[("text", PType::Str), ("checked", PType::Bool), ("checkable", PType::Bool), ("autoExclusive", PType::Bool)],
        "QSpinBox" => &[
            ("value", PType::Int),
            ("minimum", PType::Int),
            ("maximum", PType::Int),
            ("singleStep", PType::Int),
            ("prefix", PType::Str),
            ("suffix", PType::Str),
            ("wrapping", PType::Bool),
        ],
        "QSlider" => &[
            ("value", PType::Int),
            ("minimum", PType::Int),
            ("maximum", PType::Int),
            ("tickInterval", PType::Int),
            ("orientation", PType::Enum(ORIENT)),
            ("tracking", PType::Bool),
        ],
        "QProgressBar" => &[("value", PType::Int), ("minimum", PType::Int), ("maximum", PType::Int), ("textVisible", PType::Bool), ("format", PType::Str)],
        "QComboBox" => &[("editable", PType::Bool), ("maxVisibleItems", PType::Int), ("maxCount", PType::Int), ("frame", PType::Bool)],
        "QGroupBox" => &[("title", PType::Str), ("checkable", PType::Bool), ("flat", PType::Bool)],
        "QFrame" => &[("frameShape", PType::Enum(FRAME)), ("lineWidth", PType::Int), ("midLineWidth", PType::Int)],
        "QPlainTextEdit" => &[("plainText", PType::Str), ("readOnly", PType::Bool), ("tabChangesFocus", PType::Bool), ("placeholderText", PType::Str)],
        "QToolButton" => &[("text", PType::Str), ("checkable", PType::Bool), ("autoRaise", PType::Bool)],
        "QAction" | "Action1" => &[
            ("text", PType::Str),
            ("toolTip", PType::Str),
            ("statusTip", PType::Str),
            ("checkable", PType::Bool),
            ("enabled", PType::Bool),
            ("iconVisibleInMenu", PType::Bool),
        ],
        "QMenu" => &[("title", PType::Str), ("tearOffEnabled", PType::Bool), ("separatorsCollapsible", PType::Bool)],
        "QVBoxLayout" | "QHBoxLayout" | "QGridLayout" | "QFormLayout" | "VBoxLayout1" => &[("spacing", PType::Int), ("sizeConstraint", PType::Enum(SIZECONS))],
        "QSpacerItem" => &[("orientation", PType::Enum(ORIENT))],
        _ => &[],
    }
}

/// sources for dynamic expressions: (id, class, property, type) with a notify signal
pub const SOURCES: &[(&str, &str, &str, PType)] = &[
    ("srcEdit", "QLineEdit", "text", PType::Str),
    ("srcCheck", "QCheckBox", "checked", PType::Bool),
    ("srcSpin", "QSpinBox", "value", PType::Int),
    ("srcSlider", "QSlider", "value", PType::Int),
    ("srcCombo", "QComboBox", "currentText", PType::Str),
    ("srcDial", "QDoubleSpinBox", "value", PType::Double),
];

fn cxx_enum(qml: &str) -> String {
    qml.replace('.', "::")
}

pub struct PropOpts {
    pub max_per_object: usize,
    pub dynamic_chance: (u32, u32),
    pub callbacks: bool,
    pub gadgets: bool,
    pub attached: bool,
    pub strings_simple: bool,
}

impl Default for PropOpts {
    fn default() -> Self {
        PropOpts { max_per_object: 4, dynamic_chance: (1, 4), callbacks: true, gadgets: true, attached: true, strings_simple: true }
    }
}

pub struct Decorated {
    pub root: Obj,
    pub ledger: Vec<Record>,
}

fn gen_str(rng: &mut Rng, simple: bool) -> String {
    let words = ["Open", "Save file", "x", "", "Name:", "50 %", "a&b", "<b>bold</b>", "naïve", "日本", "it's", "q\"q", "tab\there", "line\nbreak"];
    if simple {
        (*rng.pick(&words[..9])).to_owned()
    } else {
        (*rng.pick(&words)).to_owned()
    }
}

fn const_value(rng: &mut Rng, ty: PType, simple: bool) -> (String, Fate) {
    match ty {
        PType::Str => {
            let s = gen_str(rng, simple);
            let tr = rng.chance(1, 3);
            let lit = qml_string_literal(&s, rng.below(6) as u32);
            if tr {
                (format!("qsTr({lit})"), Fate::Const { tag: "string".into(), text: s })
            } else {
                (lit, Fate::Const { tag: "string-notr".into(), text: s })
            }
        }
        PType::Bool => {
            let b = rng.chance(1, 2);
            (b.to_string(), Fate::Const { tag: "bool".into(), text: b.to_string() })
        }
        PType::Int => {
            let v = *rng.pick(&[0i64, 1, 2, 7, 10, 42, 100, 255, 1000, -1, -5, 65535]);
            match rng.below(6) {
                0 => (format!("{} + {}", v, 1), Fate::Const { tag: "number".into(), text: (v + 1).to_string() }),
                1 if v >= 0 => (format!("0x{:x}", v), Fate::Const { tag: "number".into(), text: v.to_string() }),
                2 => (format!("({}) * 2", v), Fate::Const { tag: "number".into(), text: (v * 2).to_string() }),
                _ => (v.to_string(), Fate::Const { tag: "number".into(), text: v.to_string() }),
            }
        }
        PType::Double => {
            let (src, text) = *rng.pick(&[("0.5", "0.5"), ("1.0", "1"), ("0.25", "0.25"), ("2.5e-1", "0.25"), ("0.75", "0.75")]);
            (src.to_owned(), Fate::Const { tag: "number".into(), text: text.to_owned() })
        }
        PType::Enum(vs) => {
            let v = *rng.pick(vs);
            (v.to_owned(), Fate::Const { tag: "enum".into(), text: cxx_enum(v) })
        }
        PType::Flags(vs) => {
            let a = *rng.pick(vs);
            if rng.chance(1, 2) {
                let b = *rng.pick(vs);
                if a != b {
                    return (format!("{a} | {b}"), Fate::Const { tag: "set".into(), text: format!("{}|{}", cxx_enum(a), cxx_enum(b)) });
                }
            }
            (a.to_owned(), Fate::Const { tag: "set".into(), text: cxx_enum(a) })
        }
    }
}

fn dynamic_value(rng: &mut Rng, ty: PType, own_id: &str) -> Option<String> {
    let pick_src = |rng: &mut Rng, want: PType| -> Option<String> {
        let c: Vec<&(&str, &str, &str, PType)> =
            SOURCES.iter().filter(|s| std::mem::discriminant(&s.3) == std::mem::discriminant(&want) && s.0 != own_id).collect();
        if c.is_empty() {
            None
        } else {
            let s = rng.pick(&c);
            Some(format!("{}.{}", s.0, s.2))
        }
    };
    match ty {
        PType::Str => {
            let a = pick_src(rng, PType::Str)?;
            Some(match rng.below(5) {
                0 => format!("{a} + \"!\""),
                1 => format!("qsTr(\"Name: %1\").arg({a})"),
                2 => format!("{} ? {a} : \"off\"", pick_src(rng, PType::Bool)?),
                3 => format!("{{ if ({}) {{ return {a} }} else {{ return \"none\" }} }}", pick_src(rng, PType::Bool)?),
                _ => a,
            })
        }
        PType::Bool => {
            let a = pick_src(rng, PType::Bool)?;
            Some(match rng.below(6) {
                0 => format!("!{a}"),
                1 => format!("{} > 3", pick_src(rng, PType::Int)?),
                2 => format!("{a} && {} !== \"\"", pick_src(rng, PType::Str)?),
                3 => format!("{} === 0 || {a}", pick_src(rng, PType::Int)?),
                _ => a,
            })
        }
        PType::Int => {
            let a = pick_src(rng, PType::Int)?;
            Some(match rng.below(6) {
                0 => format!("{a} + 1"),
                1 => format!("{a} * 2 - 3"),
                2 => format!("{} ? {a} : 0", pick_src(rng, PType::Bool)?),
                3 => format!("Math.max({a}, 1)"),
                4 => format!("{{ switch ({a}) {{ case 0: return 10; case 1: return 20; default: return {a}; }} }}"),
                _ => a,
            })
        }
        PType::Double => pick_src(rng, PType::Double),
        PType::Enum(vs) => {
            let c = pick_src(rng, PType::Bool)?;
            let a = *rng.pick(vs);
            let b = *rng.pick(vs);
            Some(format!("{c} ? {a} : {b}"))
        }
        PType::Flags(vs) => {
            let c = pick_src(rng, PType::Bool)?;
            let a = *rng.pick(vs);
            let b = *rng.pick(vs);
            Some(format!("{c} ? {a} : {b}"))
        }
    }
}

/// Adds the dynamic-expression sources to the root (so that every document can have dynamic bindings), then
/// bindings on every object.  All objects must already carry ids.
pub fn decorate(rng: &mut Rng, mut root: Obj, opts: &PropOpts) -> Decorated {
    // source widgets live in a dedicated child container to keep the layout rules simple
    let mut holder = Obj::new("QWidget").with_id("srcHolder");
    for (id, class, _, _) in SOURCES {
        holder.children.push(Obj::new(class).with_id(id));
    }
    let mut ledger = vec![];
    fn visit(rng: &mut Rng, o: &mut Obj, opts: &PropOpts, ledger: &mut Vec<Record>, parent_class: Option<&str>, is_root: bool) {
        let id = o.id.clone().expect("ids required");
        let fam = family_of(&o.class);
        let is_static_sep = o.bindings.iter().any(|(l, _)| l == "separator");
        // candidates: class specific + generic widget properties
        let mut cands: Vec<Prop> = class_props(&o.class).to_vec();
        if matches!(fam, Family::Widget | Family::Menu) && o.class != "QButtonGroup" {
            cands.extend_from_slice(WIDGET_PROPS);
        }
        rng.shuffle(&mut cands);
        let n = if is_static_sep { 0 } else { rng.below(opts.max_per_object + 1).min(cands.len()) };
        let dynamic_ok = fam != Family::Spacer;
        for &(name, ty) in cands.iter().take(n) {
            if o.bindings.iter().any(|(l, _)| l == name) {
                continue;
            }
            let (dn, dd) = opts.dynamic_chance;
            if dynamic_ok && rng.chance(dn, dd) {
                if let Some(e) = dynamic_value(rng, ty, &id) {
                    o.bindings.push((name.to_owned(), e));
                    ledger.push(Record { object: id.clone(), lhs: name.to_owned(), fate: Fate::Dynamic });
                    continue;
                }
            }
            let (src, fate) = const_value(rng, ty, opts.strings_simple);
            o.bindings.push((name.to_owned(), src));
            ledger.push(Record { object: id.clone(), lhs: name.to_owned(), fate });
        }
        // grouped (gadget) bindings
        if opts.gadgets && matches!(fam, Family::Widget | Family::Menu) && o.class != "QButtonGroup" && !is_static_sep && rng.chance(1, 3) {
            match rng.below(4) {
                0 => {
                    // font
                    let dynamic_member = dynamic_ok && rng.chance(1, 3);
                    if dynamic_member {
                        o.bindings.push(("font.bold".into(), "srcCheck.checked".into()));
                        ledger.push(Record { object: id.clone(), lhs: "font.bold".into(), fate: Fate::Dynamic });
                    } else {
                        let b = rng.chance(1, 2);
                        o.bindings.push(("font.bold".into(), b.to_string()));
                        ledger.push(Record { object: id.clone(), lhs: "font.bold".into(), fate: Fate::Const { tag: "bool".into(), text: b.to_string() } });
                    }
                    let ps = 8 + rng.below(10) as i64;
                    o.bindings.push(("font.pointSize".into(), ps.to_string()));
                    ledger.push(Record { object: id.clone(), lhs: "font.pointSize".into(), fate: Fate::Const { tag: "number".into(), text: ps.to_string() } });
                    if rng.chance(1, 2) {
                        o.bindings.push(("font.family".into(), "\"Monospace\"".into()));
                        ledger.push(Record { object: id.clone(), lhs: "font.family".into(), fate: Fate::Const { tag: "string-any".into(), text: "Monospace".into() } });
                    }
                }
                1 => {
                    for (m, v) in [("width", 10 + rng.below(300) as i64), ("height", 10 + rng.below(300) as i64)] {
                        o.bindings.push((format!("minimumSize.{m}"), v.to_string()));
                        ledger.push(Record { object: id.clone(), lhs: format!("minimumSize.{m}"), fate: Fate::Const { tag: "number".into(), text: v.to_string() } });
                    }
                }
                2 => {
                    let h = *rng.pick(&["Fixed", "Minimum", "Expanding", "Preferred"]);
                    let v = *rng.pick(&["Fixed", "Minimum", "Expanding", "Preferred"]);
                    o.bindings.push(("sizePolicy.horizontalPolicy".into(), format!("QSizePolicy.{h}")));
                    o.bindings.push(("sizePolicy.verticalPolicy".into(), format!("QSizePolicy.{v}")));
                    ledger.push(Record { object: id.clone(), lhs: "sizePolicy.horizontalPolicy".into(), fate: Fate::Const { tag: "attr-hsizetype".into(), text: h.into() } });
                    ledger.push(Record { object: id.clone(), lhs: "sizePolicy.verticalPolicy".into(), fate: Fate::Const { tag: "attr-vsizetype".into(), text: v.into() } });
                    if rng.chance(1, 2) {
                        if dynamic_ok && rng.chance(1, 2) {
                            o.bindings.push(("sizePolicy.horizontalStretch".into(), "srcSpin.value".into()));
                            ledger.push(Record { object: id.clone(), lhs: "sizePolicy.horizontalStretch".into(), fate: Fate::Dynamic });
                        } else {
                            let s = rng.below(5) as i64;
                            o.bindings.push(("sizePolicy.horizontalStretch".into(), s.to_string()));
                            ledger.push(Record { object: id.clone(), lhs: "sizePolicy.horizontalStretch".into(), fate: Fate::Const { tag: "number".into(), text: s.to_string() } });
                        }
                    }
                }
                _ => {
                    let (x, y, w, h) = (rng.below(50) as i64, rng.below(50) as i64, 10 + rng.below(500) as i64, 10 + rng.below(500) as i64);
                    for (m, v) in [("x", x), ("y", y), ("width", w), ("height", h)] {
                        o.bindings.push((format!("geometry.{m}"), v.to_string()));
                        ledger.push(Record { object: id.clone(), lhs: format!("geometry.{m}"), fate: Fate::Const { tag: "number".into(), text: v.to_string() } });
                    }
                }
            }
        }
        if opts.gadgets && fam == Family::Spacer && rng.chance(2, 3) {
            for (m, v) in [("width", 10 + rng.below(40) as i64), ("height", 10 + rng.below(40) as i64)] {
                o.bindings.push((format!("sizeHint.{m}"), v.to_string()));
                ledger.push(Record { object: id.clone(), lhs: format!("sizeHint.{m}"), fate: Fate::Const { tag: "number".into(), text: v.to_string() } });
            }
        }
        if opts.gadgets && fam == Family::Layout && rng.chance(1, 3) {
            for m in ["left", "top", "right", "bottom"] {
                if rng.chance(1, 2) {
                    let v = rng.below(20) as i64;
                    o.bindings.push((format!("contentsMargins.{m}"), v.to_string()));
                    ledger.push(Record { object: id.clone(), lhs: format!("contentsMargins.{m}"), fate: Fate::Const { tag: "number".into(), text: v.to_string() } });
                }
            }
        }
        // attached layout properties
        if opts.attached && !is_root {
            if let Some(pc) = parent_class {
                if family_of(pc) == Family::Layout && rng.chance(1, 3) {
                    let a = *rng.pick(ALIGN);
                    o.bindings.push(("QLayout.alignment".into(), a.to_owned()));
                    ledger.push(Record { object: id.clone(), lhs: "QLayout.alignment".into(), fate: Fate::Const { tag: "item-alignment".into(), text: cxx_enum(a) } });
                }
                if (pc == "QGridLayout" || pc == "QFormLayout") && rng.chance(1, 3) {
                    let r = rng.below(4) as i64;
                    o.bindings.push(("QLayout.row".into(), r.to_string()));
                    ledger.push(Record { object: id.clone(), lhs: "QLayout.row".into(), fate: Fate::LayoutPseudo });
                }
            }
        }
        // signal handlers
        if opts.callbacks && dynamic_ok {
            let handler: Option<(&str, &str, String)> = match o.class.as_str() {
                "QPushButton" | "QToolButton" if rng.chance(1, 3) => Some(("onClicked", "clicked", match rng.below(3) {
                    0 => "srcEdit.clear()".to_owned(),
                    1 => "{ srcSpin.value = srcSpin.value + 1; console.log(\"clicked\") }".to_owned(),
                    _ => "function() { if (srcCheck.checked) { srcEdit.text = \"on\" } else { srcEdit.text = \"off\" } }".to_owned(),
                })),
                "QCheckBox" | "QRadioButton" if rng.chance(1, 3) => Some(("onToggled", "toggled", match rng.below(2) {
                    0 => "function(on: bool) { srcEdit.enabled = on }".to_owned(),
                    _ => "srcEdit.selectAll()".to_owned(),
                })),
                "QLineEdit" if rng.chance(1, 4) => Some(("onTextChanged", "textChanged", "function(s: QString) { srcCombo.currentText = s }".to_owned())),
                "QSlider" if rng.chance(1, 4) => Some(("onValueChanged", "valueChanged", "function(v: int) { srcSpin.value = v * 2 }".to_owned())),
                "QAction" if rng.chance(1, 4) && !is_static_sep => Some(("onTriggered", "triggered", "srcEdit.clear()".to_owned())),
                _ => None,
            };
            if let Some((lhs, sig, body)) = handler {
                o.bindings.push((lhs.to_owned(), body));
                ledger.push(Record { object: id.clone(), lhs: lhs.to_owned(), fate: Fate::Callback { signal: sig.to_owned() } });
            }
        }
        let cls = o.class.clone();
        for c in &mut o.children {
            visit(rng, c, opts, ledger, Some(&cls), false);
        }
    }
    visit(rng, &mut root, opts, &mut ledger, None, true);
    // attach the holder last so that it does not disturb layout children
    match root.children.first().map(|c| family_of(&c.class)) {
        Some(Family::Layout) => root.children[0].children.push(holder),
        _ => root.children.push(holder),
    }
    Decorated { root, ledger }
}
