//! C05: type-directed generator of WELL-TYPED programs built only from the constructs documented in
//! docs/language.md (bindings of every property type of the verification class VBase, and signal callbacks), and
//! of their single-edit type-breaking mutants.
//!
//! A mutant is produced by re-running the same generation (same random stream) with a mutation plan
//! `(kind, site)`: at the `site`-th place where an edit of that kind applies, the generator emits the broken
//! variant instead (its random choices come from a side stream, so everything else of the program is identical to
//! the well-typed original).  A first run with `site = usize::MAX` counts the applicable places.
//!
//! Constant sub-expressions are kept free of *value* errors (overflow, division by a constant zero, shift counts
//! out of range): literals are 0..9, a constant divisor/shift count is always a literal leaf (1..9 / 0..2).
use crate::ast::{Decl, Expr, FnBody, Program, Stmt};
use crate::rng::Rng;

#[derive(Clone, Copy, Debug, PartialEq, Eq)]
pub enum T {
    Int,
    Uint,
    Double,
    Bool,
    Str,
    Mode,
    Other,
    Flags,
    PBase,
    POther,
    PDerived,
    StrList,
    IntList,
    Variant,
}

pub const ALL_T: &[T] = &[
    T::Int, T::Uint, T::Double, T::Bool, T::Str, T::Mode, T::Other, T::Flags, T::PBase, T::POther, T::PDerived, T::StrList,
    T::IntList, T::Variant,
];

impl T {
    /// read/write/notify properties of VBase of this type
    pub fn props(self) -> &'static [&'static str] {
        match self {
            T::Int => &["i", "j"],
            T::Uint => &["u"],
            T::Double => &["d", "e"],
            T::Bool => &["b", "c"],
            T::Str => &["s", "t"],
            T::Mode => &["mode"],
            T::Other => &["other"],
            T::Flags => &["flags"],
            T::PBase => &["next"],
            T::POther => &["peer"],
            T::PDerived => &["derived"],
            T::StrList => &["items"],
            T::IntList => &["ints"],
            T::Variant => &["vr"],
        }
    }
    /// type annotation, where the language has one
    pub fn annotation(self) -> Option<Vec<String>> {
        let v: &[&str] = match self {
            T::Int => &["int"],
            T::Uint => &["uint"],
            T::Double => &["double"],
            T::Bool => &["bool"],
            T::Str => &["QString"],
            T::Mode => &["VBase", "Mode"],
            T::Other => &["VBase", "Other"],
            T::Flags => &["VBase", "Flags"],
            T::PBase => &["VBase"],
            T::POther => &["VOther"],
            T::PDerived => &["VDerived"],
            T::Variant => &["QVariant"],
            T::StrList | T::IntList => return None,
        };
        Some(v.iter().map(|s| s.to_string()).collect())
    }
}

/// the catalogue of single type-breaking edits
#[derive(Clone, Copy, Debug, PartialEq, Eq)]
pub enum Mk {
    ArithOperand,
    BitwiseOperand,
    ShiftOperand,
    UnaryOperand,
    NotOperand,
    CmpOperand,
    LogicalOperand,
    IntForDouble,
    DoubleForInt,
    CondIf,
    CondTernary,
    AssignConst,
    AssignReadOnly,
    AssignRvalue,
    AssignType,
    ArgCount,
    ArgType,
    UnknownMember,
    UnsupportedBinary,
    UnsupportedUnary,
    UnsupportedStatement,
    FunctionExpression,
    BadCast,
    PointerMixTernary,
    PointerMixEq,
    PointerOrder,
    NullOrder,
    EnumMix,
    ResultType,
    ReturnVoid,
    ReturnMixed,
    CbTooManyParams,
    CbParamType,
    CbParamUntyped,
    CbNamed,
    CbDupParam,
    Undeclared,
    OutOfScope,
    DeclNoTypeNoInit,
    ConstNoInit,
    DeclType,
    ArrayMixed,
    SubscriptIndex,
    SubscriptNonList,
    CaseType,
    MathMixed,
    TrNonLiteral,
    LiteralDefault,
    VoidValue,
    Unreadable,
    BreakOutside,
    TernaryBranches,
    SwitchScopeLeak,
    IfScopeLeak,
}

pub const ALL_MK: &[Mk] = &[
    Mk::ArithOperand, Mk::BitwiseOperand, Mk::ShiftOperand, Mk::UnaryOperand, Mk::NotOperand, Mk::CmpOperand, Mk::LogicalOperand,
    Mk::IntForDouble, Mk::DoubleForInt, Mk::CondIf, Mk::CondTernary, Mk::AssignConst, Mk::AssignReadOnly, Mk::AssignRvalue,
    Mk::AssignType, Mk::ArgCount, Mk::ArgType, Mk::UnknownMember, Mk::UnsupportedBinary, Mk::UnsupportedUnary,
    Mk::UnsupportedStatement, Mk::FunctionExpression, Mk::BadCast, Mk::PointerMixTernary, Mk::PointerMixEq, Mk::PointerOrder,
    Mk::NullOrder, Mk::EnumMix, Mk::ResultType, Mk::ReturnVoid, Mk::ReturnMixed, Mk::CbTooManyParams, Mk::CbParamType,
    Mk::CbParamUntyped, Mk::CbNamed, Mk::CbDupParam, Mk::Undeclared, Mk::OutOfScope, Mk::DeclNoTypeNoInit, Mk::ConstNoInit,
    Mk::DeclType, Mk::ArrayMixed, Mk::SubscriptIndex, Mk::SubscriptNonList, Mk::CaseType, Mk::MathMixed, Mk::TrNonLiteral,
    Mk::LiteralDefault, Mk::VoidValue, Mk::Unreadable, Mk::BreakOutside, Mk::TernaryBranches, Mk::SwitchScopeLeak, Mk::IfScopeLeak,
];

impl Mk {
    pub fn name(self) -> String {
        // CamelCase → kebab-case
        let s = format!("{self:?}");
        let mut out = String::new();
        for (i, c) in s.chars().enumerate() {
            if c.is_ascii_uppercase() {
                if i > 0 {
                    out.push('-');
                }
                out.push(c.to_ascii_lowercase());
            } else {
                out.push(c);
            }
        }
        out
    }
}

fn id(n: &str) -> Expr {
    Expr::Ident(n.to_owned())
}
fn mem(o: Expr, p: &str) -> Expr {
    Expr::Member(Box::new(o), p.to_owned())
}
fn bin(op: &'static str, l: Expr, r: Expr) -> Expr {
    Expr::Binary(op, Box::new(l), Box::new(r))
}
fn un(op: &'static str, a: Expr) -> Expr {
    Expr::Unary(op, Box::new(a))
}
fn call(f: Expr, args: Vec<Expr>) -> Expr {
    Expr::Call(Box::new(f), args)
}
fn as_(v: Expr, t: &[&str]) -> Expr {
    Expr::As(Box::new(v), t.iter().map(|s| s.to_string()).collect())
}
fn tern(c: Expr, a: Expr, b: Expr) -> Expr {
    Expr::Ternary(Box::new(c), Box::new(a), Box::new(b))
}
fn sub(o: Expr, i: Expr) -> Expr {
    Expr::Subscript(Box::new(o), Box::new(i))
}
fn int(v: u64) -> Expr {
    Expr::Int(v, v.to_string())
}
fn assign(l: Expr, r: Expr) -> Stmt {
    Stmt::Expr(Expr::Assign(Box::new(l), Box::new(r)))
}

/// the expression has the literal type "constant integer" (it is folded at compile time)
pub fn is_const_int(e: &Expr) -> bool {
    match e {
        Expr::Int(..) => true,
        Expr::Unary(op, a) => matches!(*op, "minus" | "plus" | "bitnot") && is_const_int(a),
        Expr::Binary(op, l, r) => {
            matches!(*op, "add" | "sub" | "mul" | "div" | "rem" | "band" | "bxor" | "bor" | "shl" | "shr") && is_const_int(l) && is_const_int(r)
        }
        _ => false,
    }
}

#[derive(Clone)]
pub struct Local {
    pub name: String,
    pub ty: T,
    pub is_const: bool,
    /// declared without initialiser and not yet assigned on every path: not read by the generator
    pub init: bool,
}

pub struct TGen {
    pub rng: Rng,
    side: Rng,
    in_side: bool,
    pub kind: Option<Mk>,
    pub site: usize,
    pub counter: usize,
    pub locals: Vec<Local>,
    next_local: usize,
    in_switch: bool,
    /// callback context (effects allowed in statements)
    callback: bool,
    /// which operand position the planned edit broke (left / right operand, condition, consequence / alternative), if the
    /// edit is one of the operand swaps
    pub pos: Option<&'static str>,
}

impl TGen {
    pub fn new(rng: Rng, side: Rng, plan: Option<(Mk, usize)>) -> Self {
        TGen {
            rng,
            side,
            in_side: false,
            kind: plan.map(|p| p.0),
            site: plan.map(|p| p.1).unwrap_or(usize::MAX),
            counter: 0,
            locals: vec![],
            next_local: 0,
            in_switch: false,
            callback: false,
            pos: None,
        }
    }

    /// an operand swap breaks exactly ONE operand of a two-operand construct; which one is decided on the side stream
    /// (the main stream is not advanced), so every operator class is exercised with the left operand alone and with the
    /// right operand alone of the wrong type (and a ternary with each branch alone)
    fn break_left(&mut self) -> bool {
        let left = self.side(|g| g.rng.chance(1, 2));
        self.pos = Some(if left { "left" } else { "right" });
        left
    }

    /// is this the place where the planned edit happens?
    fn hit(&mut self, k: Mk) -> bool {
        if self.in_side || self.kind != Some(k) {
            return false;
        }
        let h = self.counter == self.site;
        self.counter += 1;
        h
    }

    /// run `f` on the side random stream (the main stream is not advanced), with no further edits
    fn side<R>(&mut self, f: impl FnOnce(&mut Self) -> R) -> R {
        std::mem::swap(&mut self.rng, &mut self.side);
        let was = self.in_side;
        self.in_side = true;
        let r = f(self);
        self.in_side = was;
        std::mem::swap(&mut self.rng, &mut self.side);
        r
    }

    // ---------------------------------------------------------------------------------------------
    // leaves

    fn object_of(&mut self, cls: &str) -> Expr {
        match cls {
            "VBase" => match self.rng.below(6) {
                0 => id("a"),
                1 => id("b"),
                2 => Expr::This,
                3 => mem(id("b"), "next"),
                4 => mem(id("o"), "base"),
                _ => id("b"),
            },
            "VOther" => {
                if self.rng.chance(1, 3) {
                    mem(id("b"), "peer")
                } else {
                    id("o")
                }
            }
            _ => {
                if self.rng.chance(1, 3) {
                    mem(id("b"), "derived")
                } else {
                    id("dv")
                }
            }
        }
    }

    fn local_of(&mut self, t: T) -> Option<Expr> {
        let c: Vec<String> = self.locals.iter().filter(|l| l.ty == t && l.init).map(|l| l.name.clone()).collect();
        if c.is_empty() {
            None
        } else {
            // a shadowed name resolves to the innermost declaration: only offer names whose innermost declaration has type t
            let n = self.rng.pick(&c).clone();
            let inner = self.locals.iter().rev().find(|l| l.name == n).unwrap();
            if inner.ty == t && inner.init {
                Some(id(&n))
            } else {
                None
            }
        }
    }

    fn str_literal(&mut self) -> Expr {
        let s = *self.rng.pick(&["", "a", "b", "abc", "x y", "Z", "é", "%1", "100%", "q\"q", "tab\there"]);
        Expr::Str(s.to_owned())
    }

    fn float_literal(&mut self) -> Expr {
        Expr::Float((*self.rng.pick(&["0.5", "1.0", "2.5", "0.25", "1e3", "2.5e-1", "0.1", "100.0", "3.0", "0.0"])).to_owned())
    }

    /// a non-literal ("dynamic") leaf of type t: a property read, a method call, a local, an object id, an enumerator
    fn dyn_leaf(&mut self, t: T) -> Expr {
        if self.rng.chance(1, 3) {
            if let Some(l) = self.local_of(t) {
                return l;
            }
        }
        let p = *self.rng.pick(t.props());
        // an implicit-this property named like an object id (`b`) would denote the object
        let generic = |g: &mut Self| match g.rng.below(4) {
            0 if !matches!(p, "a" | "b" | "o" | "dv") => id(p),
            1 => mem(Expr::This, p),
            _ => {
                let o = g.object_of("VBase");
                mem(o, p)
            }
        };
        match t {
            T::Int => match self.rng.below(10) {
                0 => mem(id("o"), "n"),
                1 => mem(id("dv"), "extra"),
                2 => mem(id("a"), "k"),
                3 => mem(id("b"), "ro"),
                4 => call(mem(id("b"), "count"), vec![]),
                5 => sub(mem(id("b"), "ints"), int(0)),
                6 => sub(mem(id("b"), "ints"), mem(id("b"), "j")),
                _ => generic(self),
            },
            T::Str => match self.rng.below(8) {
                0 => mem(id("o"), "name"),
                1 => sub(mem(id("b"), "items"), int(1)),
                2 => call(id("qsTr"), vec![self.str_literal()]),
                _ => generic(self),
            },
            T::Bool => match self.rng.below(6) {
                0 => mem(id("o"), "on"),
                _ => generic(self),
            },
            T::Mode => {
                if self.rng.chance(1, 2) {
                    mem(id("VBase"), *self.rng.pick(&["ModeA", "ModeB", "ModeC"]))
                } else {
                    generic(self)
                }
            }
            T::Other => {
                if self.rng.chance(1, 2) {
                    mem(id("VBase"), *self.rng.pick(&["OtherX", "OtherY"]))
                } else {
                    generic(self)
                }
            }
            T::Flags => {
                if self.rng.chance(1, 2) {
                    mem(id("VBase"), *self.rng.pick(&["FlagOne", "FlagTwo", "FlagFour", "FlagNone"]))
                } else {
                    generic(self)
                }
            }
            T::PBase => self.object_of("VBase"),
            T::POther => self.object_of("VOther"),
            T::PDerived => self.object_of("VDerived"),
            _ => generic(self),
        }
    }

    /// a leaf of type t; `strict`: must not be of a literal type that defaults to another type (uint only)
    fn leaf(&mut self, t: T, strict: bool) -> Expr {
        match t {
            T::Int => {
                if self.rng.chance(2, 5) {
                    let e = int(self.rng.below(10) as u64);
                    if self.hit(Mk::DoubleForInt) {
                        return self.side(|g| g.float_literal());
                    }
                    e
                } else {
                    self.dyn_leaf(t)
                }
            }
            T::Uint => {
                if !strict && self.rng.chance(2, 5) {
                    int(self.rng.below(10) as u64)
                } else {
                    self.dyn_leaf(t)
                }
            }
            T::Double => {
                if self.rng.chance(2, 5) {
                    let e = self.float_literal();
                    if self.hit(Mk::IntForDouble) {
                        return self.side(|g| int(g.rng.below(10) as u64));
                    }
                    e
                } else {
                    self.dyn_leaf(t)
                }
            }
            T::Bool => {
                if self.rng.chance(1, 4) {
                    Expr::Bool(self.rng.chance(1, 2))
                } else {
                    self.dyn_leaf(t)
                }
            }
            T::Str => {
                if self.rng.chance(2, 5) {
                    self.str_literal()
                } else {
                    self.dyn_leaf(t)
                }
            }
            T::StrList => {
                if self.rng.chance(1, 2) {
                    let n = 1 + self.rng.below(3);
                    Expr::Array((0..n).map(|_| self.str_literal()).collect())
                } else {
                    self.dyn_leaf(t)
                }
            }
            T::IntList => {
                if self.rng.chance(1, 3) {
                    let n = 1 + self.rng.below(3);
                    Expr::Array((0..n).map(|_| int(self.rng.below(10) as u64)).collect())
                } else {
                    self.dyn_leaf(t)
                }
            }
            _ => self.dyn_leaf(t),
        }
    }

    /// an expression whose type is certainly NOT usable where `t` is expected (for operand swaps)
    fn wrong(&mut self, t: T, d: usize) -> Expr {
        let among: &[T] = match t {
            T::Int => &[T::Uint, T::Double, T::Bool, T::Str, T::Mode, T::PBase],
            T::Uint => &[T::Int, T::Double, T::Bool, T::Str, T::Flags],
            T::Double => &[T::Int, T::Uint, T::Bool, T::Str],
            T::Bool => &[T::Int, T::Str, T::PBase, T::Mode, T::Double],
            T::Str => &[T::Int, T::Bool, T::Double, T::StrList, T::Mode],
            T::Mode => &[T::Other, T::Int, T::Flags, T::Str],
            T::Other => &[T::Mode, T::Int, T::Bool],
            T::Flags => &[T::Mode, T::Int, T::Uint, T::Bool],
            T::PBase => &[T::POther, T::Int, T::Bool, T::Str],
            T::POther => &[T::PBase, T::PDerived, T::Int],
            T::PDerived => &[T::PBase, T::POther, T::Str],
            T::StrList => &[T::IntList, T::Str, T::Int],
            T::IntList => &[T::StrList, T::Int, T::Str],
            T::Variant => &[T::Int, T::Str, T::Bool],
        };
        let ot = *self.rng.pick(among);
        // strict and dynamic: a literal could adopt the expected type (an int literal where uint is expected)
        let e = self.expr(ot, d.min(1), true);
        if is_const_int(&e) {
            // an integer constant fits int AND uint: make it a definite int/uint
            let p = if ot == T::Uint { "u" } else { "i" };
            return if matches!(ot, T::Int | T::Uint) { mem(id("b"), p) } else { e };
        }
        e
    }

    // ---------------------------------------------------------------------------------------------
    // expressions

    /// a constant divisor / shift count must be a literal leaf in range (no value errors in constant folding)
    fn safe_divisor(&mut self, r: Expr) -> Expr {
        if is_const_int(&r) {
            int(1 + self.rng.below(9) as u64)
        } else {
            r
        }
    }
    fn safe_shift_count(&mut self, r: Expr) -> Expr {
        if is_const_int(&r) {
            int(self.rng.below(3) as u64)
        } else {
            r
        }
    }

    fn integer_expr(&mut self, t: T, d: usize, strict: bool) -> Expr {
        let strict = strict && t == T::Uint;
        match self.rng.below(16) {
            0..=4 => {
                let op = *self.rng.pick(&["add", "sub", "mul", "div", "rem"]);
                let mut l = self.expr(t, d, strict);
                let mut r = self.expr(t, d, false);
                if matches!(op, "div" | "rem") {
                    r = self.safe_divisor(r);
                }
                if self.hit(Mk::ArithOperand) {
                    // the edit breaks exactly ONE operand: the left one or the right one
                    let w = self.side(|g| g.wrong(t, d));
                    if self.break_left() {
                        l = w;
                    } else {
                        r = w;
                    }
                }
                if self.hit(Mk::UnsupportedBinary) {
                    let bad = *self.side(|g| *g.rng.pick(&[&"exp", &"ushr", &"nullish", &"in", &"instanceof"]));
                    return bin(bad, l, r);
                }
                bin(op, l, r)
            }
            5 | 6 => {
                let op = *self.rng.pick(&["band", "bxor", "bor"]);
                let mut l = self.expr(t, d, strict);
                let mut r = self.expr(t, d, false);
                if self.hit(Mk::BitwiseOperand) {
                    // the edit breaks exactly ONE operand: the left one or the right one
                    let w = self.side(|g| g.wrong(t, d));
                    if self.break_left() {
                        l = w;
                    } else {
                        r = w;
                    }
                }
                bin(op, l, r)
            }
            7 => {
                let op = *self.rng.pick(&["shl", "shr"]);
                // `<literal> << <dynamic>` is an int (literal default)
                let mut l = self.expr(t, d, t == T::Uint);
                // the shift count may be of either integer type
                let rt = *self.rng.pick(&[T::Int, T::Int, T::Uint]);
                let r = self.expr(rt, d, false);
                let mut r = self.safe_shift_count(r);
                if self.hit(Mk::ShiftOperand) {
                    let w = self.side(|g| {
                        let ot = *g.rng.pick(&[T::Double, T::Bool, T::Str, T::Mode]);
                        g.expr(ot, d.min(1), true)
                    });
                    if self.break_left() {
                        l = w;
                    } else {
                        r = w;
                    }
                }
                bin(op, l, r)
            }
            8 => {
                let op = *self.rng.pick(&["minus", "plus", "bitnot"]);
                let mut a = self.expr(t, d, strict);
                if self.hit(Mk::UnaryOperand) {
                    a = self.side(|g| {
                        let ot = if op == "bitnot" { *g.rng.pick(&[T::Double, T::Bool, T::Str]) } else { *g.rng.pick(&[T::Bool, T::Str, T::Mode, T::PBase]) };
                        g.expr(ot, d.min(1), true)
                    });
                }
                if self.hit(Mk::UnsupportedUnary) {
                    let bad = *self.side(|g| *g.rng.pick(&[&"typeof", &"void", &"delete"]));
                    return un(bad, a);
                }
                un(op, a)
            }
            9 => {
                let f = *self.rng.pick(&["max", "min"]);
                // Math.max of two integer literals is an int (literal default), never a uint
                let mut l = self.expr(t, d, t == T::Uint);
                let mut r = self.expr(t, d, false);
                if self.hit(Mk::MathMixed) {
                    // the edit breaks exactly ONE operand: the left one or the right one
                    let w = self.side(|g| g.wrong(t, d));
                    if self.break_left() {
                        l = w;
                    } else {
                        r = w;
                    }
                }
                let mut args = vec![l, r];
                if self.hit(Mk::ArgCount) {
                    if self.side(|g| g.rng.chance(1, 2)) {
                        args.pop();
                    } else {
                        args.push(int(1));
                    }
                }
                call(mem(id("Math"), f), args)
            }
            10 => self.ternary(t, d, strict),
            11 => {
                // casts into the integer types
                let from = *self.rng.pick(&[T::Double, T::Bool, T::Mode, T::Flags, T::Int, T::Uint, T::Variant]);
                let mut v = self.expr(from, d, true);
                if self.hit(Mk::BadCast) {
                    v = self.side(|g| {
                        let ot = *g.rng.pick(&[T::Str, T::PBase, T::StrList]);
                        g.expr(ot, d.min(1), true)
                    });
                }
                as_(v, if t == T::Int { &["int"] } else { &["uint"] })
            }
            12 if t == T::Int => {
                let (x, y, z) = (self.expr(T::Int, d, false), self.expr(T::Int, d, false), self.expr(T::Int, d, false));
                let mut args = vec![x, y, z];
                if self.hit(Mk::ArgCount) {
                    if self.side(|g| g.rng.chance(1, 2)) {
                        args.pop();
                    } else {
                        args.push(int(1));
                    }
                }
                if self.hit(Mk::ArgType) {
                    args[1] = self.side(|g| g.wrong(T::Int, d));
                }
                let m = if self.hit(Mk::UnknownMember) { "sum4" } else { "sum3" };
                call(mem(id("b"), m), args)
            }
            13 if t == T::Int => {
                // list subscript
                let it = *self.rng.pick(&[T::Int, T::Uint]);
                let mut i = self.expr(it, d, false);
                let mut o = mem(id("b"), "ints");
                if self.hit(Mk::SubscriptIndex) {
                    i = self.side(|g| {
                        let ot = *g.rng.pick(&[T::Double, T::Str, T::Bool]);
                        g.expr(ot, d.min(1), true)
                    });
                }
                if self.hit(Mk::SubscriptNonList) {
                    o = self.side(|g| {
                        let ot = *g.rng.pick(&[T::Int, T::Str, T::PBase]);
                        g.dyn_leaf(ot)
                    });
                }
                sub(o, i)
            }
            _ => self.leaf(t, strict),
        }
    }

    fn ternary(&mut self, t: T, d: usize, strict: bool) -> Expr {
        let mut c = self.expr(T::Bool, d, false);
        // both branches must have ONE common concrete type: no upcast, integer literals default to int
        let strict_b = strict || t == T::Uint;
        let mut a = self.expr(t, d, strict_b);
        let mut b = self.expr(t, d, strict_b);
        if self.hit(Mk::CondTernary) {
            c = self.side(|g| g.wrong(T::Bool, d));
            self.pos = Some("condition");
        }
        if self.hit(Mk::TernaryBranches) {
            // exactly ONE branch has the wrong type: the consequence or the alternative
            let w = self.side(|g| g.wrong(t, d));
            if self.break_left() {
                a = w;
            } else {
                b = w;
            }
        }
        if matches!(t, T::PBase) && self.hit(Mk::PointerMixTernary) {
            let w = self.side(|g| if g.rng.chance(1, 2) { g.object_of("VOther") } else { g.object_of("VDerived") });
            if self.break_left() {
                a = w;
            } else {
                b = w;
            }
        }
        if t == T::Uint && self.hit(Mk::LiteralDefault) {
            // `c ? 1 : 2` is an int, not a uint
            return tern(c, int(1), int(2));
        }
        tern(c, a, b)
    }

    /// an expression of type `t`.  `strict` (uint only): the static type must be `uint` itself, not "constant integer"
    pub fn expr(&mut self, t: T, d: usize, strict: bool) -> Expr {
        let e = self.expr0(t, d, strict);
        if strict && t == T::Uint && is_const_int(&e) {
            return as_(e, &["uint"]);
        }
        e
    }

    fn expr0(&mut self, t: T, d: usize, strict: bool) -> Expr {
        if d == 0 || self.rng.chance(1, 4) {
            return self.leaf(t, strict);
        }
        let d = d - 1;
        match t {
            T::Int | T::Uint => self.integer_expr(t, d, strict),
            T::Double => match self.rng.below(9) {
                0..=2 => {
                    let op = *self.rng.pick(&["add", "sub", "mul", "div", "rem"]);
                    let mut l = self.expr(t, d, false);
                    let mut r = self.expr(t, d, false);
                    if self.hit(Mk::ArithOperand) {
                        // the edit breaks exactly ONE operand: the left one or the right one
                        let w = self.side(|g| g.wrong(t, d));
                        if self.break_left() {
                            l = w;
                        } else {
                            r = w;
                        }
                    }
                    bin(op, l, r)
                }
                3 => {
                    let a = self.expr(t, d, false);
                    un(*self.rng.pick(&["minus", "plus"]), a)
                }
                4 => {
                    let from = *self.rng.pick(&[T::Int, T::Uint]);
                    let mut v = self.expr(from, d, false);
                    if self.hit(Mk::BadCast) {
                        v = self.side(|g| {
                            let ot = *g.rng.pick(&[T::Bool, T::Mode, T::Str]);
                            g.expr(ot, d.min(1), true)
                        });
                    }
                    as_(v, &["double"])
                }
                5 => self.ternary(t, d, false),
                6 => {
                    let f = *self.rng.pick(&["max", "min"]);
                    let mut l = self.expr(t, d, false);
                    let mut r = self.expr(t, d, false);
                    if self.hit(Mk::MathMixed) {
                        // the edit breaks exactly ONE operand: the left one or the right one
                        let w = self.side(|g| g.wrong(t, d));
                        if self.break_left() {
                            l = w;
                        } else {
                            r = w;
                        }
                    }
                    call(mem(id("Math"), f), vec![l, r])
                }
                7 => {
                    let mut x = self.expr(T::Double, d, false);
                    if self.hit(Mk::ArgType) {
                        x = self.side(|g| g.wrong(T::Double, d));
                    }
                    call(mem(id("b"), "scaled"), vec![x])
                }
                _ => self.leaf(t, false),
            },
            T::Bool => self.bool_expr(d),
            T::Str => match self.rng.below(9) {
                0..=2 => {
                    let mut l = self.expr(t, d, false);
                    let mut r = self.expr(t, d, false);
                    if self.hit(Mk::ArithOperand) {
                        // the edit breaks exactly ONE operand: the left one or the right one
                        let w = self.side(|g| g.wrong(t, d));
                        if self.break_left() {
                            l = w;
                        } else {
                            r = w;
                        }
                    }
                    if self.hit(Mk::UnsupportedBinary) {
                        return bin("sub", l, r); // `-` is not defined on strings
                    }
                    bin("add", l, r)
                }
                3 => self.ternary(t, d, false),
                4 => {
                    let s = self.expr(t, d, false);
                    let at = *self.rng.pick(&[T::Int, T::Str, T::Double]);
                    let mut arg = self.expr(at, d, false);
                    if self.hit(Mk::ArgType) {
                        arg = self.side(|g| {
                            let ot = *g.rng.pick(&[T::PBase, T::StrList, T::Mode]);
                            g.expr(ot, d.min(1), true)
                        });
                    }
                    let mut args = vec![arg];
                    if self.hit(Mk::ArgCount) {
                        args.clear();
                    }
                    let m = if self.hit(Mk::UnknownMember) { "args" } else { "arg" };
                    call(Expr::Member(Box::new(s), m.into()), args)
                }
                5 => {
                    let mut i = self.expr(T::Int, d, false);
                    if self.hit(Mk::ArgType) {
                        i = self.side(|g| g.wrong(T::Int, d));
                    }
                    call(mem(id("b"), "label"), vec![i])
                }
                6 => {
                    let f = *self.rng.pick(&["max", "min"]);
                    let (l, r) = (self.expr(t, d, false), self.expr(t, d, false));
                    call(mem(id("Math"), f), vec![l, r])
                }
                7 => {
                    let mut a = self.str_literal();
                    if self.hit(Mk::TrNonLiteral) {
                        a = self.side(|g| g.dyn_leaf(T::Str));
                    }
                    let mut args = vec![a];
                    if self.hit(Mk::ArgCount) {
                        args.push(Expr::Str("x".into()));
                    }
                    call(id("qsTr"), args)
                }
                _ => self.leaf(t, false),
            },
            T::Mode | T::Other => match self.rng.below(3) {
                0 => self.ternary(t, d, false),
                _ => self.leaf(t, false),
            },
            T::Flags => match self.rng.below(6) {
                0 | 1 => {
                    let op = *self.rng.pick(&["band", "bxor", "bor"]);
                    let mut l = self.expr(t, d, false);
                    let mut r = self.expr(t, d, false);
                    if self.hit(Mk::BitwiseOperand) {
                        // the edit breaks exactly ONE operand: the left one or the right one
                        let w = self.side(|g| g.wrong(t, d));
                        if self.break_left() {
                            l = w;
                        } else {
                            r = w;
                        }
                    }
                    bin(op, l, r)
                }
                2 => {
                    let a = self.expr(t, d, false);
                    un("bitnot", a)
                }
                3 => self.ternary(t, d, false),
                _ => self.leaf(t, false),
            },
            T::PBase => match self.rng.below(6) {
                0 => self.ternary(t, d, false),
                1 => {
                    // upcast by `as`
                    let mut v = self.expr(T::PDerived, d, false);
                    if self.hit(Mk::BadCast) {
                        v = self.side(|g| g.object_of("VOther"));
                    }
                    as_(v, &["VBase"])
                }
                2 => {
                    let o = self.expr(T::PBase, d, false);
                    let m = if self.hit(Mk::UnknownMember) { "nxt" } else { "next" };
                    mem(o, m)
                }
                3 => {
                    let mut i = self.expr(T::Int, d, false);
                    if self.hit(Mk::ArgType) {
                        i = self.side(|g| g.wrong(T::Int, d));
                    }
                    call(mem(id("b"), "pick"), vec![i])
                }
                _ => self.leaf(t, false),
            },
            T::PDerived => match self.rng.below(4) {
                0 => self.ternary(t, d, false),
                1 if self.hit(Mk::BadCast) => {
                    // downcast is not a cast
                    let v = self.side(|g| g.object_of("VBase"));
                    as_(v, &["VDerived"])
                }
                _ => self.leaf(t, false),
            },
            T::POther | T::Variant | T::IntList => match self.rng.below(3) {
                0 => self.ternary(t, d, false),
                _ => self.leaf(t, false),
            },
            T::StrList => match self.rng.below(4) {
                0 => {
                    let n = 1 + self.rng.below(3);
                    let mut es: Vec<Expr> = (0..n).map(|_| self.expr(T::Str, d, false)).collect();
                    if self.hit(Mk::ArrayMixed) {
                        let x = self.side(|g| g.wrong(T::Str, d));
                        es.push(x);
                    }
                    Expr::Array(es)
                }
                1 => self.ternary(t, d, false),
                _ => self.leaf(t, false),
            },
        }
    }

    fn bool_expr(&mut self, d: usize) -> Expr {
        let t = T::Bool;
        match self.rng.below(14) {
            0..=3 => {
                let ot = *self.rng.pick(&[T::Int, T::Uint, T::Double, T::Str, T::Bool, T::Mode, T::Flags, T::PBase, T::POther]);
                let ptr = matches!(ot, T::PBase | T::POther);
                let op = if ptr {
                    *self.rng.pick(&["eq", "ne", "seq", "sne"])
                } else {
                    *self.rng.pick(&["eq", "ne", "lt", "le", "gt", "ge", "seq", "sne"])
                };
                let mut l = self.expr(ot, d, false);
                let mut r = self.expr(ot, d, false);
                if self.hit(Mk::CmpOperand) {
                    // the edit breaks exactly ONE operand: the left one or the right one
                    let w = self.side(|g| g.wrong(ot, d));
                    if self.break_left() {
                        l = w;
                    } else {
                        r = w;
                    }
                }
                if ot == T::PBase && self.hit(Mk::PointerMixEq) {
                    let w = self.side(|g| if g.rng.chance(1, 2) { g.object_of("VOther") } else { g.object_of("VDerived") });
                    if self.break_left() {
                        l = w;
                    } else {
                        r = w;
                    }
                }
                if ptr && self.hit(Mk::PointerOrder) {
                    let bad = *self.side(|g| *g.rng.pick(&[&"lt", &"le", &"gt", &"ge"]));
                    return bin(bad, l, r);
                }
                if ot == T::Mode && self.hit(Mk::EnumMix) {
                    let w = self.side(|g| if g.rng.chance(1, 2) { g.expr(T::Other, 0, true) } else { g.expr(T::Int, 0, true) });
                    if self.break_left() {
                        l = w;
                    } else {
                        r = w;
                    }
                }
                bin(op, l, r)
            }
            4 | 5 => {
                let op = *self.rng.pick(&["land", "lor"]);
                let mut l = self.expr(t, d, false);
                let mut r = self.expr(t, d, false);
                if self.hit(Mk::LogicalOperand) {
                    // the edit breaks exactly ONE operand: the left one or the right one
                    let w = self.side(|g| g.wrong(T::Bool, d));
                    if self.break_left() {
                        l = w;
                    } else {
                        r = w;
                    }
                }
                bin(op, l, r)
            }
            6 => {
                let mut a = self.expr(t, d, false);
                if self.hit(Mk::NotOperand) {
                    a = self.side(|g| g.wrong(T::Bool, d));
                }
                un("not", a)
            }
            7 => self.ternary(t, d, false),
            8 => {
                let st = *self.rng.pick(&[T::Str, T::StrList, T::IntList]);
                let s = self.expr(st, d, false);
                let m = if self.hit(Mk::UnknownMember) { "isNull" } else { "isEmpty" };
                let mut args = vec![];
                if self.hit(Mk::ArgCount) {
                    args.push(int(0));
                }
                call(Expr::Member(Box::new(s), m.into()), args)
            }
            9 => {
                // null tests
                let p = self.expr(T::PBase, d, false);
                let op = *self.rng.pick(&["eq", "ne"]);
                let both_null = self.rng.chance(1, 6);
                if self.hit(Mk::NullOrder) {
                    let bad = *self.side(|g| *g.rng.pick(&[&"lt", &"le", &"gt", &"ge"]));
                    return if self.side(|g| g.rng.chance(1, 2)) { bin(bad, Expr::Null, Expr::Null) } else { bin(bad, p, Expr::Null) };
                }
                if both_null {
                    bin(op, Expr::Null, Expr::Null)
                } else {
                    bin(op, p, Expr::Null)
                }
            }
            10 => {
                let op = *self.rng.pick(&["band", "bxor", "bor"]);
                let mut l = self.expr(t, d, false);
                let mut r = self.expr(t, d, false);
                if self.hit(Mk::BitwiseOperand) {
                    // the edit breaks exactly ONE operand: the left one or the right one
                    let w = self.side(|g| g.wrong(T::Bool, d));
                    if self.break_left() {
                        l = w;
                    } else {
                        r = w;
                    }
                }
                bin(op, l, r)
            }
            11 => {
                let (s, i) = (self.expr(T::Str, d, false), self.expr(T::Int, d, false));
                let mut args = vec![s, i];
                if self.hit(Mk::ArgType) {
                    args.swap(0, 1);
                }
                if self.hit(Mk::ArgCount) {
                    args.pop();
                }
                call(mem(id("b"), "test"), args)
            }
            _ => self.leaf(t, false),
        }
    }

    // ---------------------------------------------------------------------------------------------
    // statements

    fn fresh(&mut self) -> String {
        self.next_local += 1;
        format!("v{}", self.next_local)
    }

    /// `let`/`const` declarations (documented forms: annotation and/or initial value)
    fn declarations(&mut self, d: usize, out: &mut Vec<Stmt>, extra_ty: Option<T>) {
        for _ in 0..self.rng.below(3) {
            let mut tys = vec![T::Int, T::Bool, T::Str, T::Double, T::PBase, T::Uint, T::Mode, T::StrList];
            if let Some(t) = extra_ty {
                tys.push(t);
            }
            let lt = *self.rng.pick(&tys);
            let name = self.fresh();
            let is_const = self.rng.chance(1, 3);
            let form = self.rng.below(4);
            let can_annotate = lt.annotation().is_some();
            // forms: 0 `let v = e` (type from the value: e must have the exact type), 1 `let v: T = e`, 2 `let v: T;` then `v = e`
            if form == 2 && can_annotate && !is_const {
                let mut ann = lt.annotation();
                if self.hit(Mk::DeclNoTypeNoInit) {
                    ann = None;
                }
                out.push(Stmt::Lexical(false, vec![Decl { name: name.clone(), ty: ann, value: None }]));
                let v = self.expr(lt, d.min(2), false);
                out.push(assign(id(&name), v));
                self.locals.push(Local { name, ty: lt, is_const: false, init: true });
                continue;
            }
            let annotate = form == 1 && can_annotate;
            // without annotation the declared type is the value's: uint needs a strict value, pointers/lists no `null`/`[]`
            let mut v = self.expr(lt, d.min(2), !annotate);
            if annotate && lt == T::PBase && self.rng.chance(1, 3) {
                // upcast on assignment
                v = self.object_of("VDerived");
            }
            if annotate && self.hit(Mk::DeclType) {
                v = self.side(|g| g.wrong(lt, d));
            }
            let mut value = Some(v);
            let mut is_c = is_const;
            if is_const && self.hit(Mk::ConstNoInit) {
                value = None;
            }
            // `let v = e; … v = e2` with the edit: declare it const
            let reassign = !is_const && self.rng.chance(1, 3);
            if reassign && self.hit(Mk::AssignConst) {
                is_c = true;
            }
            out.push(Stmt::Lexical(is_c, vec![Decl { name: name.clone(), ty: if annotate { lt.annotation() } else { None }, value }]));
            self.locals.push(Local { name: name.clone(), ty: lt, is_const, init: true });
            if reassign {
                let mut v2 = self.expr(lt, d.min(2), false);
                if self.hit(Mk::AssignType) {
                    v2 = self.side(|g| g.wrong(lt, d));
                }
                out.push(assign(id(&name), v2));
            }
        }
    }

    fn tail(&mut self, t: T, d: usize) -> Stmt {
        let mut e = self.expr(t, d, false);
        if self.hit(Mk::VoidValue) {
            e = call(mem(id("b"), "reset"), vec![]);
        }
        if self.hit(Mk::Unreadable) {
            e = mem(id("b"), "wo");
        }
        if self.hit(Mk::Undeclared) {
            e = id("nosuch");
        }
        if self.hit(Mk::FunctionExpression) {
            e = Expr::Function;
        }
        if self.rng.chance(1, 2) {
            if self.hit(Mk::ReturnVoid) {
                return Stmt::Return(None);
            }
            Stmt::Return(Some(e))
        } else {
            Stmt::Expr(e)
        }
    }

    /// statements of a property binding of type `t`, ending on every path in `return e` or a tail expression statement
    pub fn value_block(&mut self, t: T, d: usize) -> Vec<Stmt> {
        let mut out = vec![];
        let saved = self.locals.len();
        self.declarations(d, &mut out, Some(t));
        match self.rng.below(7) {
            0 | 1 => out.push(self.tail(t, d)),
            2 => {
                let mut c = self.expr(T::Bool, d.min(2), false);
                if self.hit(Mk::CondIf) {
                    c = self.side(|g| g.wrong(T::Bool, d));
                }
                if self.rng.chance(2, 3) {
                    let a = Stmt::Block(self.value_block(t, d.saturating_sub(1)));
                    let b = Stmt::Block(self.value_block(t, d.saturating_sub(1)));
                    out.push(Stmt::If(c, Box::new(a), Some(Box::new(b))));
                } else {
                    // without `else` the branch must return; the tail supplies the other path
                    let r = self.expr(t, d.min(2), false);
                    out.push(Stmt::If(c, Box::new(Stmt::Block(vec![Stmt::Return(Some(r))])), None));
                    out.push(self.tail(t, d));
                }
            }
            3 => {
                // switch, then the tail
                let st = *self.rng.pick(&[T::Int, T::Mode, T::Str, T::Uint]);
                let v = self.expr(st, d.min(2), false);
                let n = 1 + self.rng.below(3);
                let default_at = if self.rng.chance(2, 3) { Some(self.rng.below(n + 1)) } else { None };
                let mut clauses = vec![];
                let was = self.in_switch;
                self.in_switch = true;
                for k in 0..=n {
                    if Some(k) == default_at {
                        let body = self.switch_body(t, d);
                        clauses.push((None, body));
                    }
                    if k < n {
                        let mut cv = self.leaf(st, false);
                        if self.hit(Mk::CaseType) {
                            cv = self.side(|g| g.wrong(st, 0));
                        }
                        let body = self.switch_body(t, d);
                        clauses.push((Some(cv), body));
                    }
                }
                self.in_switch = was;
                let tl = self.tail(t, d);
                if self.hit(Mk::SwitchScopeLeak) {
                    // a variable declared in a clause, used after the switch
                    let name = self.fresh();
                    let v0 = self.side(|g| g.expr(t, 1, true));
                    clauses[0].1.insert(0, Stmt::Lexical(false, vec![Decl { name: name.clone(), ty: None, value: Some(v0) }]));
                    out.push(Stmt::Switch(v, clauses));
                    out.push(Stmt::Return(Some(id(&name))));
                } else {
                    out.push(Stmt::Switch(v, clauses));
                    out.push(tl);
                }
            }
            4 => {
                let mut c = self.expr(T::Bool, d.min(2), false);
                if self.hit(Mk::CondIf) {
                    c = self.side(|g| g.wrong(T::Bool, d));
                }
                let mut r = Some(self.expr(t, d.min(2), false));
                if self.hit(Mk::ReturnMixed) {
                    r = Some(self.side(|g| g.wrong(t, d)));
                }
                let tl = self.tail(t, d);
                if self.hit(Mk::IfScopeLeak) {
                    // a declaration made directly in the branch of an `if`, used after it
                    let name = self.fresh();
                    let v0 = self.side(|g| g.expr(t, 1, true));
                    out.push(Stmt::If(c, Box::new(Stmt::Lexical(false, vec![Decl { name: name.clone(), ty: None, value: Some(v0) }])), None));
                    out.push(Stmt::Return(Some(id(&name))));
                } else {
                    out.push(Stmt::If(c, Box::new(Stmt::Return(r)), None));
                    out.push(tl);
                }
            }
            5 => {
                // nested block with an inner declaration; the edit uses it outside its scope
                let name = self.fresh();
                let v = self.expr(t, d.min(2), true);
                let inner = vec![Stmt::Lexical(false, vec![Decl { name: name.clone(), ty: None, value: Some(v) }])];
                out.push(Stmt::Block(inner));
                let tl = self.tail(t, d);
                if self.hit(Mk::OutOfScope) {
                    out.push(Stmt::Expr(id(&name)));
                } else {
                    out.push(tl);
                }
            }
            _ => {
                if self.hit(Mk::BreakOutside) {
                    out.push(Stmt::Break(false));
                }
                if self.hit(Mk::UnsupportedStatement) {
                    out.push(Stmt::Break(true));
                }
                out.push(self.tail(t, d));
            }
        }
        self.locals.truncate(saved);
        out
    }

    fn switch_body(&mut self, t: T, d: usize) -> Vec<Stmt> {
        let mut b = vec![];
        match self.rng.below(6) {
            0 => {}
            1 => b.push(Stmt::Return(Some(self.expr(t, d.min(1), false)))),
            2 => {
                b.push(Stmt::Expr(self.expr(t, d.min(1), false)));
                b.push(Stmt::Break(false));
            }
            3 => {
                let c = self.expr(T::Bool, 1, false);
                b.push(Stmt::If(c, Box::new(Stmt::Break(false)), None));
                b.push(Stmt::Expr(self.expr(t, d.min(1), false)));
            }
            4 => b.push(Stmt::Expr(self.expr(t, d.min(1), false))),
            _ => b.push(Stmt::Break(false)),
        }
        b
    }

    /// a property-binding program of type `t`
    pub fn binding(&mut self, t: T, d: usize) -> Program {
        if self.rng.chance(1, 2) {
            let mut e = self.expr(t, d, false);
            if self.hit(Mk::VoidValue) {
                e = call(mem(id("b"), "reset"), vec![]);
            }
            Program::Stmt(Stmt::Expr(e))
        } else {
            Program::Stmt(Stmt::Block(self.value_block(t, d)))
        }
    }

    /// effectful statements for callbacks
    pub fn effects(&mut self, d: usize, n: usize) -> Vec<Stmt> {
        let mut out = vec![];
        let saved = self.locals.len();
        for _ in 0..n {
            match self.rng.below(12) {
                0..=2 => {
                    // property write (identity, literal adoption, or upcast on assignment)
                    let t = *self.rng.pick(&[T::Int, T::Str, T::Bool, T::Double, T::Mode, T::Flags, T::PBase, T::StrList, T::Uint, T::Variant, T::IntList]);
                    let obj = self.object_of("VBase");
                    let mut p = *self.rng.pick(t.props());
                    let mut v = self.expr(t, d, false);
                    if t == T::PBase && self.rng.chance(1, 3) {
                        v = match self.rng.below(3) {
                            0 => Expr::Null,
                            _ => self.object_of("VDerived"),
                        };
                    }
                    if t == T::StrList && self.rng.chance(1, 5) {
                        v = Expr::Array(vec![]);
                    }
                    if t == T::Int && self.hit(Mk::AssignReadOnly) {
                        p = *self.side(|g| *g.rng.pick(&[&"ro", &"k"]));
                    }
                    if self.hit(Mk::AssignType) {
                        v = self.side(|g| g.wrong(t, d));
                    }
                    let mut target = if self.rng.chance(1, 5) && !matches!(p, "a" | "b" | "o" | "dv") { id(p) } else { mem(obj, p) };
                    if self.hit(Mk::AssignRvalue) {
                        target = self.side(|g| match g.rng.below(4) {
                            0 => call(mem(id("b"), "count"), vec![]),
                            1 => int(1),
                            2 => sub(mem(id("b"), "items"), int(0)),
                            _ => id("b"),
                        });
                    }
                    out.push(assign(target, v));
                }
                3 | 4 => {
                    let m = *self.rng.pick(&["reset", "setBoth", "take", "bump"]);
                    let mut args = match m {
                        "reset" => vec![],
                        "setBoth" => vec![self.expr(T::Int, d, false), self.expr(T::Str, d, false)],
                        "take" => vec![if self.rng.chance(1, 3) { self.object_of("VDerived") } else { self.expr(T::PBase, d, false) }],
                        _ => vec![{
                            let t = *self.rng.pick(&[T::Int, T::Double]);
                            // overloads bump(int)/bump(double): an int literal selects bump(int)
                            self.expr(t, d, false)
                        }],
                    };
                    if !args.is_empty() && self.hit(Mk::ArgType) {
                        args[0] = self.side(|g| if m == "take" { g.object_of("VOther") } else if m == "bump" { g.expr(T::Str, 1, true) } else { g.wrong(T::Int, d) });
                    }
                    if self.hit(Mk::ArgCount) {
                        if args.is_empty() || self.side(|g| g.rng.chance(1, 2)) {
                            args.push(int(1));
                        } else {
                            args.pop();
                        }
                    }
                    let o = self.object_of("VBase");
                    let m2 = if self.hit(Mk::UnknownMember) { "resetAll" } else { m };
                    out.push(Stmt::Expr(call(mem(o, m2), args)));
                }
                5 => {
                    let lv = *self.rng.pick(&["log", "debug", "info", "warn", "error"]);
                    let n = self.rng.below(3);
                    let args = (0..=n)
                        .map(|_| {
                            let t = *self.rng.pick(&[T::Int, T::Str, T::Bool, T::Double]);
                            self.expr(t, d.min(1), false)
                        })
                        .collect();
                    let lv2 = if self.hit(Mk::UnknownMember) { "trace" } else { lv };
                    out.push(Stmt::Expr(call(mem(id("console"), lv2), args)));
                }
                6 => self.declarations(d, &mut out, None),
                7 => {
                    let mut c = self.expr(T::Bool, d, false);
                    if self.hit(Mk::CondIf) {
                        c = self.side(|g| g.wrong(T::Bool, d));
                    }
                    let k = 1 + self.rng.below(2);
                    let a = Stmt::Block(self.effects(d.saturating_sub(1), k));
                    let b = if self.rng.chance(1, 2) { Some(Box::new(Stmt::Block(self.effects(d.saturating_sub(1), 1)))) } else { None };
                    out.push(Stmt::If(c, Box::new(a), b));
                }
                8 => {
                    // assignment to a `let` local
                    let cands: Vec<Local> = self.locals.iter().filter(|l| !l.is_const).cloned().collect();
                    if let Some(l) = cands.last().cloned() {
                        let inner = self.locals.iter().rev().find(|x| x.name == l.name).unwrap().clone();
                        if inner.ty == l.ty && !inner.is_const {
                            let mut v = self.expr(l.ty, d, false);
                            if self.hit(Mk::AssignType) {
                                v = self.side(|g| g.wrong(l.ty, d));
                            }
                            out.push(assign(id(&l.name), v));
                        }
                    }
                }
                9 => {
                    let st = *self.rng.pick(&[T::Int, T::Mode, T::Str]);
                    let v = self.expr(st, d.min(1), false);
                    let n = self.rng.below(3);
                    let mut clauses = vec![];
                    let was = self.in_switch;
                    self.in_switch = true;
                    for _ in 0..n {
                        let mut cv = self.leaf(st, false);
                        if self.hit(Mk::CaseType) {
                            cv = self.side(|g| g.wrong(st, 0));
                        }
                        let saved_l = self.locals.len();
                        let mut body = self.effects(0, 1);
                        self.locals.truncate(saved_l);
                        if self.rng.chance(2, 3) {
                            body.push(Stmt::Break(false));
                        }
                        clauses.push((Some(cv), body));
                    }
                    if self.rng.chance(1, 2) {
                        let at = self.rng.below(clauses.len() + 1);
                        let saved_l = self.locals.len();
                        let body = self.effects(0, 1);
                        self.locals.truncate(saved_l);
                        clauses.insert(at, (None, body));
                    }
                    self.in_switch = was;
                    out.push(Stmt::Switch(v, clauses));
                }
                10 => {
                    // element of a list-typed local
                    let name = self.fresh();
                    out.push(Stmt::Lexical(false, vec![Decl { name: name.clone(), ty: None, value: Some(mem(id("b"), "items")) }]));
                    self.locals.push(Local { name: name.clone(), ty: T::StrList, is_const: false, init: true });
                    let i = self.expr(T::Int, d.min(1), false);
                    let mut v = self.expr(T::Str, d.min(1), false);
                    if self.hit(Mk::AssignType) {
                        v = self.side(|g| g.wrong(T::Str, d));
                    }
                    out.push(assign(sub(id(&name), i), v));
                }
                _ => {
                    if self.rng.chance(1, 3) {
                        out.push(Stmt::Return(None));
                    } else {
                        let e = self.expr(T::Int, d.min(1), false);
                        out.push(Stmt::Expr(as_(e, &["void"])));
                    }
                }
            }
        }
        // the statements form one block: its declarations end with it
        self.locals.truncate(saved);
        out
    }

    /// a callback for a signal with the given parameter types
    pub fn callback(&mut self, sig_params: &[T], d: usize) -> Program {
        self.callback = true;
        match self.rng.below(4) {
            0 => {
                let s = self.effects(d, 1);
                self.locals.clear();
                match s.len() {
                    1 => match s.into_iter().next() {
                        Some(Stmt::Expr(e)) => Program::Stmt(Stmt::Expr(e)),
                        Some(other) => Program::Stmt(Stmt::Block(vec![other])),
                        None => unreachable!(),
                    },
                    _ => Program::Stmt(Stmt::Block(s)),
                }
            }
            1 => {
                let k = 1 + self.rng.below(3);
                let b = self.effects(d, k);
                self.locals.clear();
                Program::Stmt(Stmt::Block(b))
            }
            _ => {
                let take = self.rng.below(sig_params.len() + 1);
                let mut params = vec![];
                for (k, t) in sig_params.iter().take(take).enumerate() {
                    let name = format!("p{k}");
                    let mut ann = t.annotation();
                    if self.hit(Mk::CbParamType) {
                        ann = self.side(|g| {
                            let ot = match t {
                                T::PBase => *g.rng.pick(&[T::POther, T::PDerived, T::Int]),
                                T::Int => *g.rng.pick(&[T::Str, T::Double, T::Uint, T::Bool]),
                                T::Str => *g.rng.pick(&[T::Int, T::Bool]),
                                _ => *g.rng.pick(&[T::Int, T::Str]),
                            };
                            ot.annotation()
                        });
                    }
                    if self.hit(Mk::CbParamUntyped) {
                        ann = None;
                    }
                    params.push((name.clone(), ann));
                    self.locals.push(Local { name, ty: *t, is_const: false, init: true });
                }
                if self.hit(Mk::CbTooManyParams) {
                    // one more parameter than the signal has
                    for (k, t) in sig_params.iter().enumerate().skip(take) {
                        params.push((format!("p{k}"), t.annotation()));
                    }
                    params.push(("extra".into(), T::Int.annotation()));
                }
                if !params.is_empty() && self.hit(Mk::CbDupParam) {
                    let (n, a) = params[0].clone();
                    params.push((n, a));
                }
                let k = 1 + self.rng.below(3);
                let body = Stmt::Block(self.effects(d, k));
                self.locals.clear();
                let named = self.hit(Mk::CbNamed);
                Program::Function { named, params, body: FnBody::Stmt(body), arrow: false }
            }
        }
    }
}

/// the edits that are made on the whole binding rather than at a site inside it
pub fn result_type_mutant(rng: &mut Rng, side: Rng) -> (T, T, Program) {
    // (property type, type of the program)
    let pairs: &[(T, T)] = &[
        (T::Double, T::Int), (T::Int, T::Double), (T::Uint, T::Int), (T::Int, T::Uint), (T::PDerived, T::PBase), (T::Mode, T::Int),
        (T::Int, T::Mode), (T::Str, T::Int), (T::Int, T::Str), (T::Bool, T::Int), (T::Int, T::Bool), (T::PBase, T::POther),
        (T::Mode, T::Other), (T::Flags, T::Mode), (T::StrList, T::Str), (T::Str, T::StrList), (T::IntList, T::StrList),
        (T::Variant, T::Int), (T::Int, T::Variant), (T::Double, T::Uint), (T::Flags, T::Uint),
    ];
    let (pt, et) = *rng.pick(pairs);
    let depth = 1 + rng.below(3);
    let mut g = TGen::new(rng.clone(), side, None);
    // the program's type must be definite (a bare integer literal would fit int and uint)
    let p = if g.rng.chance(1, 2) {
        Program::Stmt(Stmt::Expr(g.expr(et, depth, true)))
    } else {
        g.binding(et, depth)
    };
    let p = match p {
        Program::Stmt(Stmt::Expr(e)) if is_const_int(&e) => Program::Stmt(Stmt::Expr(mem(id("b"), if et == T::Uint { "u" } else { "i" }))),
        p => p,
    };
    (pt, et, p)
}
