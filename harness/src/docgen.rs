//! Generator of abstract QML documents (object trees with ids and bindings) and the trusted
//! pretty-printer to QML text.  The abstract tree is what the oracles compare real output against.
use crate::rng::Rng;

#[derive(Clone, Debug, PartialEq)]
pub struct Obj {
    /// QML type name (= C++ class name for the Qt classes)
    pub class: String,
    pub id: Option<String>,
    /// (left-hand side, right-hand side QML text); lhs may be `text`, `font.bold`, `QLayout.row`, `onClicked`
    pub bindings: Vec<(String, String)>,
    pub children: Vec<Obj>,
}

impl Obj {
    pub fn new(class: &str) -> Obj {
        Obj { class: class.to_owned(), id: None, bindings: vec![], children: vec![] }
    }
    pub fn with_id(mut self, id: &str) -> Obj {
        self.id = Some(id.to_owned());
        self
    }
    pub fn bind(mut self, lhs: &str, rhs: &str) -> Obj {
        self.bindings.push((lhs.to_owned(), rhs.to_owned()));
        self
    }
    pub fn child(mut self, c: Obj) -> Obj {
        self.children.push(c);
        self
    }

    pub fn write_qml(&self, out: &mut String, indent: usize) {
        let pad = " ".repeat(indent);
        out.push_str(&format!("{pad}{} {{\n", self.class));
        if let Some(id) = &self.id {
            out.push_str(&format!("{pad}    id: {id}\n"));
        }
        for (l, r) in &self.bindings {
            out.push_str(&format!("{pad}    {l}: {r}\n"));
        }
        for c in &self.children {
            c.write_qml(out, indent + 4);
        }
        out.push_str(&format!("{pad}}}\n"));
    }

    pub fn to_qml(&self) -> String {
        let mut s = String::from("import qmluic.QtWidgets\n\n");
        self.write_qml(&mut s, 0);
        s
    }

    /// objects in the order `ObjectTree` stores them (children before parent)
    pub fn post_order(&self) -> Vec<&Obj> {
        let mut v = vec![];
        fn go<'a>(o: &'a Obj, v: &mut Vec<&'a Obj>) {
            for c in &o.children {
                go(c, v);
            }
            v.push(o);
        }
        go(self, &mut v);
        v
    }

    pub fn pre_order(&self) -> Vec<&Obj> {
        let mut v = vec![];
        fn go<'a>(o: &'a Obj, v: &mut Vec<&'a Obj>) {
            v.push(o);
            for c in &o.children {
                go(c, v);
            }
        }
        go(self, &mut v);
        v
    }

    pub fn count(&self) -> usize {
        1 + self.children.iter().map(|c| c.count()).sum::<usize>()
    }
    pub fn depth(&self) -> usize {
        1 + self.children.iter().map(|c| c.depth()).max().unwrap_or(0)
    }
}

#[derive(Clone, Copy, Debug, PartialEq, Eq)]
pub enum Family {
    Widget,
    Layout,
    Spacer,
    Action,
    Menu,
}

pub const CONTAINER_WIDGETS: &[&str] = &["QWidget", "QGroupBox", "QFrame", "QDialog", "QStackedWidget", "QScrollArea"];
pub const LEAF_WIDGETS: &[&str] = &[
    "QLabel", "QPushButton", "QLineEdit", "QCheckBox", "QSpinBox", "QComboBox", "QSlider", "QRadioButton",
    "QToolButton", "QPlainTextEdit", "QProgressBar", "QListWidget", "QTreeView", "QTableView", "QDialogButtonBox",
];
pub const LAYOUTS: &[&str] = &["QVBoxLayout", "QHBoxLayout", "QGridLayout", "QFormLayout"];

/// family of a (Qt or adversarial) class name used by the generator
pub fn family_of(class: &str) -> Family {
    match class {
        "QVBoxLayout" | "QHBoxLayout" | "QGridLayout" | "QFormLayout" | "QBoxLayout" | "VBoxLayout1" => Family::Layout,
        "QSpacerItem" => Family::Spacer,
        "QAction" | "QWidgetAction" | "Action1" => Family::Action,
        "QMenu" => Family::Menu,
        _ => Family::Widget,
    }
}

pub struct TreeOpts {
    pub max_depth: usize,
    pub max_children: usize,
    pub id_chance: (u32, u32),
    /// pool of ids to draw from (adversarial); fresh ids `o<N>` are used otherwise
    pub id_pool: Vec<String>,
    pub allow_dup_ids: bool,
    pub extra_widget_classes: Vec<String>,
    pub extra_action_classes: Vec<String>,
    pub extra_layout_classes: Vec<String>,
    pub tab_widgets: bool,
}

impl Default for TreeOpts {
    fn default() -> Self {
        TreeOpts {
            max_depth: 4,
            max_children: 4,
            id_chance: (1, 2),
            id_pool: vec![],
            allow_dup_ids: false,
            extra_widget_classes: vec![],
            extra_action_classes: vec![],
            extra_layout_classes: vec![],
            tab_widgets: true,
        }
    }
}

pub struct TreeGen<'r> {
    pub rng: &'r mut Rng,
    pub opts: TreeOpts,
    next_id: usize,
    used_ids: Vec<String>,
}

impl<'r> TreeGen<'r> {
    pub fn new(rng: &'r mut Rng, opts: TreeOpts) -> Self {
        TreeGen { rng, opts, next_id: 0, used_ids: vec![] }
    }

    fn maybe_id(&mut self, o: &mut Obj) {
        let (n, d) = self.opts.id_chance;
        if !self.rng.chance(n, d) {
            return;
        }
        let id = if !self.opts.id_pool.is_empty() && self.rng.chance(3, 4) {
            self.rng.pick(&self.opts.id_pool).clone()
        } else {
            self.next_id += 1;
            format!("o{}", self.next_id)
        };
        if self.used_ids.contains(&id) && !(self.opts.allow_dup_ids && self.rng.chance(1, 6)) {
            return;
        }
        self.used_ids.push(id.clone());
        o.id = Some(id);
    }

    fn pick_class(&mut self, base: &[&str], extra: &[String]) -> String {
        if !extra.is_empty() && self.rng.chance(1, 3) {
            self.rng.pick(extra).clone()
        } else {
            (*self.rng.pick(base)).to_owned()
        }
    }

    pub fn gen_root(&mut self) -> Obj {
        let class = (*self.rng.pick(&["QWidget", "QDialog", "QGroupBox", "QFrame", "QMainWindow"])).to_owned();
        let mut o = Obj::new(&class);
        self.maybe_id(&mut o);
        self.fill_container(&mut o, 1);
        o
    }

    fn fill_container(&mut self, o: &mut Obj, depth: usize) {
        if depth >= self.opts.max_depth {
            return;
        }
        match self.rng.below(3) {
            0 => {
                // one layout holding everything
                let l = self.gen_layout(depth + 1);
                o.children.push(l);
                // plus possibly actions
                for _ in 0..self.rng.below(3) {
                    let a = self.gen_action();
                    o.children.push(a);
                }
            }
            _ => {
                let n = self.rng.below(self.opts.max_children + 1);
                for _ in 0..n {
                    let c = match self.rng.below(8) {
                        0 => self.gen_action(),
                        1 => self.gen_menu(depth + 1),
                        _ => self.gen_widget(depth + 1),
                    };
                    o.children.push(c);
                }
            }
        }
    }

    pub fn gen_action(&mut self) -> Obj {
        let extra = self.opts.extra_action_classes.clone();
        let class = self.pick_class(&["QAction"], &extra);
        let mut o = Obj::new(&class);
        self.maybe_id(&mut o);
        if self.rng.chance(1, 6) && o.id.is_none() {
            o.bindings.push(("separator".into(), "true".into()));
        } else if self.rng.chance(1, 2) {
            o.bindings.push(("text".into(), format!("\"act{}\"", self.rng.below(100))));
        }
        o
    }

    pub fn gen_menu(&mut self, depth: usize) -> Obj {
        let mut o = Obj::new("QMenu");
        self.maybe_id(&mut o);
        if depth < self.opts.max_depth {
            for _ in 0..self.rng.below(4) {
                let c = if self.rng.chance(1, 5) { self.gen_menu(depth + 1) } else { self.gen_action() };
                o.children.push(c);
            }
        }
        o
    }

    pub fn gen_widget(&mut self, depth: usize) -> Obj {
        let extra = self.opts.extra_widget_classes.clone();
        if self.opts.tab_widgets && depth < self.opts.max_depth && self.rng.chance(1, 12) {
            let mut o = Obj::new("QTabWidget");
            self.maybe_id(&mut o);
            for k in 0..self.rng.below(4) {
                let mut page = self.gen_widget(depth + 1);
                if family_of(&page.class) == Family::Widget {
                    page.bindings.push(("QTabWidget.title".into(), format!("\"tab{k}\"")));
                }
                o.children.push(page);
                // a tab widget is a widget: besides its pages it may own actions and menus (declared in place, listed as
                // <addaction>), before, between and after the pages
                if self.rng.chance(1, 4) {
                    let c = if self.rng.chance(1, 4) { self.gen_menu(depth + 1) } else { self.gen_action() };
                    let at = self.rng.below(o.children.len() + 1);
                    o.children.insert(at, c);
                }
            }
            return o;
        }
        if depth < self.opts.max_depth && self.rng.chance(1, 3) {
            let class = self.pick_class(CONTAINER_WIDGETS, &extra);
            let mut o = Obj::new(&class);
            self.maybe_id(&mut o);
            self.fill_container(&mut o, depth);
            o
        } else {
            let class = self.pick_class(LEAF_WIDGETS, &extra);
            let mut o = Obj::new(&class);
            self.maybe_id(&mut o);
            o
        }
    }

    pub fn gen_layout(&mut self, depth: usize) -> Obj {
        let extra = self.opts.extra_layout_classes.clone();
        let class = self.pick_class(LAYOUTS, &extra);
        let mut o = Obj::new(&class);
        self.maybe_id(&mut o);
        let n = self.rng.below(self.opts.max_children + 2);
        for _ in 0..n {
            let c = match self.rng.below(8) {
                0 if depth < self.opts.max_depth => self.gen_layout(depth + 1),
                1 => {
                    let mut s = Obj::new("QSpacerItem");
                    self.maybe_id(&mut s);
                    s
                }
                _ => self.gen_widget(depth + 1),
            };
            o.children.push(c);
        }
        o
    }
}
