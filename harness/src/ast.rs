//! The harness's own AST of the QML/JS subset (mirror of lean/QV/Model/Ast.lean), its trusted pretty-printer to
//! source text, and its serialisation for the Lean driver.
use crate::env::qml_string_literal;
use crate::sexp::{atom, boolean, list, node, num, st, Sexp};

#[derive(Clone, Debug, PartialEq)]
pub enum Expr {
    Ident(String),
    This,
    /// value and spelling (decimal, 0x…, 0b…, 0o…, legacy octal, with `_` separators)
    Int(u64, String),
    /// spelling; the value is `spelling.parse::<f64>()`
    Float(String),
    Str(String),
    Bool(bool),
    Null,
    Array(Vec<Expr>),
    /// `function() {}` in expression position (unsupported by qmluic)
    Function,
    Member(Box<Expr>, String),
    Subscript(Box<Expr>, Box<Expr>),
    Call(Box<Expr>, Vec<Expr>),
    Assign(Box<Expr>, Box<Expr>),
    Unary(&'static str, Box<Expr>),
    Binary(&'static str, Box<Expr>, Box<Expr>),
    As(Box<Expr>, Vec<String>),
    Ternary(Box<Expr>, Box<Expr>, Box<Expr>),
}

#[derive(Clone, Debug, PartialEq)]
pub struct Decl {
    pub name: String,
    pub ty: Option<Vec<String>>,
    pub value: Option<Expr>,
}

#[derive(Clone, Debug, PartialEq)]
pub enum Stmt {
    Expr(Expr),
    Block(Vec<Stmt>),
    Lexical(bool /* const */, Vec<Decl>),
    If(Expr, Box<Stmt>, Option<Box<Stmt>>),
    /// clauses in source order: (Some(value) = case, None = default, body)
    Switch(Expr, Vec<(Option<Expr>, Vec<Stmt>)>),
    Break(bool /* labeled */),
    Return(Option<Expr>),
}

#[derive(Clone, Debug, PartialEq)]
pub enum FnBody {
    Expr(Expr),
    Stmt(Stmt),
}

#[derive(Clone, Debug, PartialEq)]
pub enum Program {
    Stmt(Stmt),
    /// callback function: named?, parameters (name, type annotation), body; arrow?
    Function { named: bool, params: Vec<(String, Option<Vec<String>>)>, body: FnBody, arrow: bool },
}

pub const UNARY_TOKENS: &[(&str, &str)] =
    &[("not", "!"), ("bitnot", "~"), ("minus", "-"), ("plus", "+"), ("typeof", "typeof "), ("void", "void "), ("delete", "delete ")];

pub const BINARY_TOKENS: &[(&str, &str)] = &[
    ("land", "&&"), ("lor", "||"), ("shr", ">>"), ("ushr", ">>>"), ("shl", "<<"), ("band", "&"), ("bxor", "^"), ("bor", "|"),
    ("add", "+"), ("sub", "-"), ("mul", "*"), ("div", "/"), ("rem", "%"), ("exp", "**"), ("eq", "=="), ("seq", "==="),
    ("ne", "!="), ("sne", "!=="), ("lt", "<"), ("le", "<="), ("gt", ">"), ("ge", ">="), ("nullish", "??"),
    ("instanceof", " instanceof "), ("in", " in "),
];

fn tok(table: &[(&str, &'static str)], name: &str) -> &'static str {
    table.iter().find(|(n, _)| *n == name).map(|(_, t)| *t).unwrap_or_else(|| panic!("unknown operator {name}"))
}

impl Expr {
    fn is_atom(&self) -> bool {
        matches!(self, Expr::Ident(_) | Expr::This | Expr::Int(..) | Expr::Float(_) | Expr::Str(_) | Expr::Bool(_) | Expr::Null | Expr::Array(_))
    }
    /// operand position: compound expressions are parenthesised (precedence-safe by construction)
    fn operand(&self) -> String {
        if self.is_atom() || matches!(self, Expr::Member(..) | Expr::Subscript(..) | Expr::Call(..)) {
            self.print()
        } else {
            format!("({})", self.print())
        }
    }
    pub fn print(&self) -> String {
        match self {
            Expr::Ident(n) => n.clone(),
            Expr::This => "this".into(),
            Expr::Int(_, s) => s.clone(),
            Expr::Float(s) => s.clone(),
            Expr::Str(s) => qml_string_literal(s, (s.len() as u32).wrapping_mul(5) % 6),
            Expr::Bool(b) => b.to_string(),
            Expr::Null => "null".into(),
            Expr::Array(es) => format!("[{}]", es.iter().map(|e| e.print()).collect::<Vec<_>>().join(", ")),
            Expr::Function => "(function() { })".into(),
            Expr::Member(o, p) => match **o {
                // `30.next` would be lexed as the float `30.` followed by an identifier
                Expr::Int(..) | Expr::Float(_) => format!("({}).{}", o.print(), p),
                _ => format!("{}.{}", o.operand(), p),
            },
            Expr::Subscript(o, i) => format!("{}[{}]", o.operand(), i.print()),
            Expr::Call(f, args) => format!("{}({})", f.operand(), args.iter().map(|e| e.print()).collect::<Vec<_>>().join(", ")),
            Expr::Assign(l, r) => format!("{} = {}", l.operand(), r.operand()),
            Expr::Unary(op, a) => format!("{}{}", tok(UNARY_TOKENS, op), a.operand()),
            Expr::Binary(op, l, r) => format!("{} {} {}", l.operand(), tok(BINARY_TOKENS, op).trim(), r.operand()),
            Expr::As(v, ty) => format!("{} as {}", v.operand(), ty.join(".")),
            Expr::Ternary(c, a, b) => format!("{} ? {} : {}", c.operand(), a.operand(), b.operand()),
        }
    }
    pub fn sexp(&self) -> Sexp {
        match self {
            Expr::Ident(n) => node("id", vec![st(n.clone())]),
            Expr::This => atom("this"),
            Expr::Int(v, sp) => node("int", vec![num(*v), st(sp.clone())]),
            Expr::Float(s) => node("float", vec![num(s.parse::<f64>().expect("float spelling").to_bits()), st(s.clone())]),
            Expr::Str(s) => node("str", vec![st(s.clone())]),
            Expr::Bool(b) => node("bool", vec![boolean(*b)]),
            Expr::Null => atom("null"),
            Expr::Array(es) => node("array", es.iter().map(|e| e.sexp()).collect()),
            Expr::Function => atom("function"),
            Expr::Member(o, p) => node("member", vec![o.sexp(), st(p.clone())]),
            Expr::Subscript(o, i) => node("sub", vec![o.sexp(), i.sexp()]),
            Expr::Call(f, args) => {
                let mut v = vec![f.sexp()];
                v.extend(args.iter().map(|e| e.sexp()));
                node("call", v)
            }
            Expr::Assign(l, r) => node("assign", vec![l.sexp(), r.sexp()]),
            Expr::Unary(op, a) => node("un", vec![atom(*op), a.sexp()]),
            Expr::Binary(op, l, r) => node("bin", vec![atom(*op), l.sexp(), r.sexp()]),
            Expr::As(v, ty) => node("as", vec![v.sexp(), list(ty.iter().map(|t| st(t.clone())).collect())]),
            Expr::Ternary(c, a, b) => node("tern", vec![c.sexp(), a.sexp(), b.sexp()]),
        }
    }
}

fn ty_sexp(t: &Option<Vec<String>>) -> Sexp {
    match t {
        None => atom("_"),
        Some(v) => list(v.iter().map(|x| st(x.clone())).collect()),
    }
}

impl Stmt {
    pub fn print(&self, indent: usize) -> String {
        let pad = " ".repeat(indent);
        match self {
            Stmt::Expr(e) => format!("{pad}{};\n", e.print()),
            Stmt::Block(ss) => {
                let mut s = format!("{pad}{{\n");
                for x in ss {
                    s.push_str(&x.print(indent + 4));
                }
                s.push_str(&format!("{pad}}}\n"));
                s
            }
            Stmt::Lexical(is_const, decls) => {
                let ds: Vec<String> = decls
                    .iter()
                    .map(|d| {
                        let mut t = d.name.clone();
                        if let Some(ty) = &d.ty {
                            t.push_str(&format!(": {}", ty.join(".")));
                        }
                        if let Some(v) = &d.value {
                            t.push_str(&format!(" = {}", v.print()));
                        }
                        t
                    })
                    .collect();
                format!("{pad}{} {};\n", if *is_const { "const" } else { "let" }, ds.join(", "))
            }
            Stmt::If(c, a, b) => {
                let mut s = format!("{pad}if ({})\n{}", c.print(), a.print(indent + 4));
                if let Some(b) = b {
                    s.push_str(&format!("{pad}else\n{}", b.print(indent + 4)));
                }
                s
            }
            Stmt::Switch(v, clauses) => {
                let mut s = format!("{pad}switch ({}) {{\n", v.print());
                for (i, (c, body)) in clauses.iter().enumerate() {
                    // comments are extras of the grammar: some clauses get one in front (a deterministic function of the
                    // shape, so that the same AST always prints the same text), which must not change anything
                    if (i + clauses.len() + body.len()) % 3 == 0 {
                        s.push_str(&format!("{pad}// clause {i}\n"));
                    }
                    match c {
                        Some(e) => s.push_str(&format!("{pad}case {}:\n", e.print())),
                        None => s.push_str(&format!("{pad}default:\n")),
                    }
                    for x in body {
                        s.push_str(&x.print(indent + 4));
                    }
                }
                if clauses.len() % 2 == 1 {
                    s.push_str(&format!("{pad}/* end of clauses */\n"));
                }
                s.push_str(&format!("{pad}}}\n"));
                s
            }
            Stmt::Break(labeled) => format!("{pad}break{};\n", if *labeled { " out" } else { "" }),
            Stmt::Return(e) => match e {
                Some(e) => format!("{pad}return {};\n", e.print()),
                None => format!("{pad}return;\n"),
            },
        }
    }
    pub fn sexp(&self) -> Sexp {
        match self {
            Stmt::Expr(e) => node("expr", vec![e.sexp()]),
            Stmt::Block(ss) => node("block", ss.iter().map(|s| s.sexp()).collect()),
            Stmt::Lexical(c, decls) => node(
                if *c { "const" } else { "let" },
                decls
                    .iter()
                    .map(|d| node("decl", vec![st(d.name.clone()), ty_sexp(&d.ty), d.value.as_ref().map(|v| v.sexp()).unwrap_or(atom("_"))]))
                    .collect(),
            ),
            Stmt::If(c, a, b) => node("if", vec![c.sexp(), a.sexp(), b.as_ref().map(|b| b.sexp()).unwrap_or(atom("_"))]),
            Stmt::Switch(v, clauses) => {
                let mut x = vec![v.sexp()];
                for (c, body) in clauses {
                    let mut b = vec![];
                    if let Some(e) = c {
                        b.push(e.sexp());
                    }
                    b.extend(body.iter().map(|s| s.sexp()));
                    x.push(node(if c.is_some() { "case" } else { "default" }, b));
                }
                node("switch", x)
            }
            Stmt::Break(l) => atom(if *l { "break-label" } else { "break" }),
            Stmt::Return(e) => node("return", vec![e.as_ref().map(|e| e.sexp()).unwrap_or(atom("_"))]),
        }
    }
}

impl Program {
    /// text of the binding value (right-hand side of `name: …`), starting on the same line
    pub fn print(&self, indent: usize) -> String {
        match self {
            // a single expression statement is printed bare (`prop: a + b`), anything else as a block
            Program::Stmt(Stmt::Expr(e)) => format!("{}\n", e.print()),
            Program::Stmt(Stmt::Block(ss)) => Stmt::Block(ss.clone()).print(indent).trim_start().to_owned(),
            Program::Stmt(s) => s.print(indent).trim_start().to_owned(),
            Program::Function { named, params, body, arrow } => {
                let ps: Vec<String> = params
                    .iter()
                    .map(|(n, t)| match t {
                        Some(t) => format!("{n}: {}", t.join(".")),
                        None => n.clone(),
                    })
                    .collect();
                let b = match body {
                    FnBody::Expr(e) => e.operand(),
                    FnBody::Stmt(s) => s.print(indent).trim().to_owned(),
                };
                if *arrow {
                    format!("({}) => {}\n", ps.join(", "), b)
                } else {
                    format!("function{}({}) {}\n", if *named { " named" } else { "" }, ps.join(", "), b)
                }
            }
        }
    }
    pub fn sexp(&self) -> Sexp {
        match self {
            Program::Stmt(s) => node("stmt", vec![s.sexp()]),
            Program::Function { named, params, body, .. } => node(
                "fn",
                vec![
                    boolean(*named),
                    node("params", params.iter().map(|(n, t)| list(vec![st(n.clone()), ty_sexp(t)])).collect()),
                    match body {
                        FnBody::Expr(e) => node("body-expr", vec![e.sexp()]),
                        FnBody::Stmt(s) => node("body-stmt", vec![s.sexp()]),
                    },
                ],
            ),
        }
    }
}

// ------------------------------------------------------------------------------------------------
// reading the AST back from a request (for `answer`)

pub fn expr_of(s: &Sexp) -> Expr {
    if let Some(a) = s.as_atom() {
        return match a {
            "this" => Expr::This,
            "null" => Expr::Null,
            "function" => Expr::Function,
            _ => panic!("bad expr atom {a}"),
        };
    }
    let (tag, args) = s.as_node().expect("expr node");
    let b = |i: usize| Box::new(expr_of(&args[i]));
    match tag {
        "id" => Expr::Ident(args[0].as_str().unwrap().to_owned()),
        "int" => {
            let v: u64 = args[0].as_atom().unwrap().parse().unwrap();
            Expr::Int(v, args.get(1).and_then(|x| x.as_str()).map(|x| x.to_owned()).unwrap_or_else(|| v.to_string()))
        }
        "float" => Expr::Float(args[1].as_str().unwrap().to_owned()),
        "str" => Expr::Str(args[0].as_str().unwrap().to_owned()),
        "bool" => Expr::Bool(args[0].as_bool().unwrap()),
        "array" => Expr::Array(args.iter().map(expr_of).collect()),
        "member" => Expr::Member(b(0), args[1].as_str().unwrap().to_owned()),
        "sub" => Expr::Subscript(b(0), b(1)),
        "call" => Expr::Call(b(0), args[1..].iter().map(expr_of).collect()),
        "assign" => Expr::Assign(b(0), b(1)),
        "un" => {
            let op = args[0].as_atom().unwrap();
            Expr::Unary(UNARY_TOKENS.iter().find(|(n, _)| *n == op).unwrap().0, b(1))
        }
        "bin" => {
            let op = args[0].as_atom().unwrap();
            Expr::Binary(BINARY_TOKENS.iter().find(|(n, _)| *n == op).unwrap().0, b(1), b(2))
        }
        "as" => Expr::As(b(0), args[1].as_list().unwrap().iter().map(|x| x.as_str().unwrap().to_owned()).collect()),
        "tern" => Expr::Ternary(b(0), b(1), b(2)),
        _ => panic!("bad expr tag {tag}"),
    }
}

fn ty_of(s: &Sexp) -> Option<Vec<String>> {
    s.as_list().map(|l| l.iter().map(|x| x.as_str().unwrap().to_owned()).collect())
}

fn opt_expr(s: &Sexp) -> Option<Expr> {
    if s.as_atom() == Some("_") {
        None
    } else {
        Some(expr_of(s))
    }
}

pub fn stmt_of(s: &Sexp) -> Stmt {
    if let Some(a) = s.as_atom() {
        return match a {
            "break" => Stmt::Break(false),
            "break-label" => Stmt::Break(true),
            _ => panic!("bad stmt atom {a}"),
        };
    }
    let (tag, args) = s.as_node().expect("stmt node");
    match tag {
        "expr" => Stmt::Expr(expr_of(&args[0])),
        "block" => Stmt::Block(args.iter().map(stmt_of).collect()),
        "let" | "const" => Stmt::Lexical(
            tag == "const",
            args.iter()
                .map(|d| {
                    let (_, f) = d.as_node().unwrap();
                    Decl { name: f[0].as_str().unwrap().to_owned(), ty: ty_of(&f[1]), value: opt_expr(&f[2]) }
                })
                .collect(),
        ),
        "if" => Stmt::If(
            expr_of(&args[0]),
            Box::new(stmt_of(&args[1])),
            if args[2].as_atom() == Some("_") { None } else { Some(Box::new(stmt_of(&args[2]))) },
        ),
        "switch" => Stmt::Switch(
            expr_of(&args[0]),
            args[1..]
                .iter()
                .map(|c| {
                    let (t, f) = c.as_node().unwrap();
                    if t == "case" {
                        (Some(expr_of(&f[0])), f[1..].iter().map(stmt_of).collect())
                    } else {
                        (None, f.iter().map(stmt_of).collect())
                    }
                })
                .collect(),
        ),
        "return" => Stmt::Return(opt_expr(&args[0])),
        _ => panic!("bad stmt tag {tag}"),
    }
}

pub fn program_of(s: &Sexp) -> Program {
    let (tag, args) = s.as_node().expect("program node");
    match tag {
        "stmt" => Program::Stmt(stmt_of(&args[0])),
        "fn" => {
            let (_, ps) = args[1].as_node().unwrap();
            let (bt, b) = args[2].as_node().unwrap();
            Program::Function {
                named: args[0].as_bool().unwrap(),
                params: ps
                    .iter()
                    .map(|p| {
                        let l = p.as_list().unwrap();
                        (l[0].as_str().unwrap().to_owned(), ty_of(&l[1]))
                    })
                    .collect(),
                body: if bt == "body-expr" { FnBody::Expr(expr_of(&b[0])) } else { FnBody::Stmt(stmt_of(&b[0])) },
                arrow: false,
            }
        }
        _ => panic!("bad program tag {tag}"),
    }
}
