//! Type-directed generator of binding programs and callbacks over the verification classes
//! (harness/metatypes/verif.json: VBase, VDerived, VOther), mostly well-typed with a controlled rate of
//! type-breaking noise.
use crate::ast::{Decl, Expr, FnBody, Program, Stmt};
use crate::rng::Rng;

#[derive(Clone, Copy, Debug, PartialEq, Eq)]
pub enum Ty {
    Int,
    Uint,
    Double,
    Bool,
    Str,
    Mode,
    Other,
    Flags,
    PBase,
    POther,
    PDerived,
    StrList,
    IntList,
    Variant,
}

pub const ALL_TYS: &[Ty] = &[
    Ty::Int, Ty::Uint, Ty::Double, Ty::Bool, Ty::Str, Ty::Mode, Ty::Other, Ty::Flags, Ty::PBase, Ty::POther, Ty::PDerived,
    Ty::StrList, Ty::IntList, Ty::Variant,
];

impl Ty {
    /// property of VBase holding this type (read/write/notify)
    pub fn base_props(self) -> &'static [&'static str] {
        match self {
            Ty::Int => &["i", "j"],
            Ty::Uint => &["u"],
            Ty::Double => &["d", "e"],
            Ty::Bool => &["b", "c"],
            Ty::Str => &["s", "t"],
            Ty::Mode => &["mode"],
            Ty::Other => &["other"],
            Ty::Flags => &["flags"],
            Ty::PBase => &["next"],
            Ty::POther => &["peer"],
            Ty::PDerived => &["derived"],
            Ty::StrList => &["items"],
            Ty::IntList => &["ints"],
            Ty::Variant => &["vr"],
        }
    }
    pub fn annotation(self) -> Vec<String> {
        let v: &[&str] = match self {
            Ty::Int => &["int"],
            Ty::Uint => &["uint"],
            Ty::Double => &["double"],
            Ty::Bool => &["bool"],
            Ty::Str => &["QString"],
            Ty::Mode => &["VBase", "Mode"],
            Ty::Other => &["VBase", "Other"],
            Ty::Flags => &["VBase", "Flags"],
            Ty::PBase => &["VBase"],
            Ty::POther => &["VOther"],
            Ty::PDerived => &["VDerived"],
            Ty::StrList => &["QStringList"],
            Ty::IntList => &["QStringList"], // no annotation for QList<int>; rarely used
            Ty::Variant => &["QVariant"],
        };
        v.iter().map(|s| s.to_string()).collect()
    }
}

fn id(n: &str) -> Expr {
    Expr::Ident(n.to_owned())
}
fn mem(o: Expr, p: &str) -> Expr {
    Expr::Member(Box::new(o), p.to_owned())
}
fn bin(op: &'static str, l: Expr, r: Expr) -> Expr {
    Expr::Binary(op, Box::new(l), Box::new(r))
}
fn un(op: &'static str, a: Expr) -> Expr {
    Expr::Unary(op, Box::new(a))
}
fn call(f: Expr, args: Vec<Expr>) -> Expr {
    Expr::Call(Box::new(f), args)
}
fn as_(v: Expr, t: &[&str]) -> Expr {
    Expr::As(Box::new(v), t.iter().map(|s| s.to_string()).collect())
}
fn tern(c: Expr, a: Expr, b: Expr) -> Expr {
    Expr::Ternary(Box::new(c), Box::new(a), Box::new(b))
}

pub struct Gen<'r> {
    pub rng: &'r mut Rng,
    /// locals in scope: (name, type, is_const)
    pub locals: Vec<(String, Ty, bool)>,
    pub next_local: usize,
    /// probability (per mille) of deliberately picking a wrong type at a sub-expression
    pub noise: u32,
    /// constant-only expressions (no object reads)
    pub constant_only: bool,
    /// inside a switch body (break allowed)
    pub in_switch: bool,
}

impl<'r> Gen<'r> {
    pub fn new(rng: &'r mut Rng, noise: u32) -> Self {
        Gen { rng, locals: vec![], next_local: 0, noise, constant_only: false, in_switch: false }
    }

    fn int_literal(&mut self) -> Expr {
        let v: u64 = match self.rng.below(12) {
            0 => 0,
            1 => 1,
            2 => 2,
            3 => 7,
            4 => 10,
            5 => 255,
            6 => 2147483647,
            7 => 2147483648,
            8 => 4294967295,
            9 => *self.rng.pick(&[9007199254740993u64, 9223372036854775807, 9223372036854775808, 4611686018427387904, 62, 63, 64, 31, 32]),
            _ => self.rng.below(100) as u64,
        };
        let sp = match self.rng.below(10) {
            0 => format!("0x{v:x}"),
            1 => format!("0X{v:X}"),
            2 => format!("0b{v:b}"),
            3 => format!("0o{v:o}"),
            4 if v > 7 => format!("0{v:o}"), // legacy octal
            5 if v >= 1000 => {
                // digit separators
                let d = v.to_string();
                let (h, t) = d.split_at(d.len() - 3);
                format!("{h}_{t}")
            }
            _ => v.to_string(),
        };
        Expr::Int(v, sp)
    }

    fn float_literal(&mut self) -> Expr {
        let sp = *self.rng.pick(&["0.5", "1.0", "2.5", "0.25", "1e3", "2.5e-1", "1.5E2", "0.1", "100.0", "3.0", "0.0", "1e308", "4.9e-324", "1.7976931348623157e308"]);
        // upper-case exponent is not recognised by qmluic's number parser as float; keep only forms with 'e' or '.'
        Expr::Float(sp.replace('E', "e"))
    }

    fn str_literal(&mut self) -> Expr {
        let s = *self.rng.pick(&["", "a", "b", "abc", "x y", "Z", "é", "\u{e000}", "\u{10000}", "q\"q", "back\\slash", "tab\there", "nl\nx", "%1", "100%",
            // characters a C++ literal must escape, directly followed by characters that would extend the escape sequence
            // (hex digits after \x…, octal digits after \0)
            // — only characters XML 1.0 can carry, so that the same strings may be constants of the form: DEL and C1 controls
            "\u{7f}1", "\u{85}a", "\u{9f}F0"]);
        Expr::Str(s.to_owned())
    }

    fn object_of(&mut self, cls: &str) -> Expr {
        match cls {
            "VBase" => match self.rng.below(7) {
                0 => id("a"),
                1 => id("b"),
                2 => Expr::This,
                3 => mem(id("b"), "next"),
                4 => mem(mem(id("a"), "next"), "next"),
                5 => mem(id("o"), "base"),
                _ => id("a"),
            },
            "VOther" => match self.rng.below(3) {
                0 => id("o"),
                1 => mem(id("a"), "peer"),
                _ => id("o"),
            },
            _ => match self.rng.below(3) {
                0 => id("dv"),
                1 => mem(id("b"), "derived"),
                _ => id("dv"),
            },
        }
    }

    fn local_of(&mut self, ty: Ty) -> Option<Expr> {
        let c: Vec<&(String, Ty, bool)> = self.locals.iter().filter(|l| l.1 == ty).collect();
        if c.is_empty() {
            None
        } else {
            Some(id(&self.rng.pick(&c).0.clone()))
        }
    }

    /// a leaf or shallow expression of the requested type
    fn leaf(&mut self, ty: Ty) -> Expr {
        if !self.constant_only && self.rng.chance(1, 4) {
            if let Some(l) = self.local_of(ty) {
                return l;
            }
        }
        let dynamic = !self.constant_only && self.rng.chance(3, 5);
        if dynamic {
            // a property read
            let p = *self.rng.pick(ty.base_props());
            return match self.rng.below(8) {
                0 => id(p), // implicit this
                1 => mem(Expr::This, p),
                2 if ty == Ty::Int => mem(id("o"), "n"),
                2 if ty == Ty::Str => mem(id("o"), "name"),
                2 if ty == Ty::Bool => mem(id("o"), "on"),
                3 if ty == Ty::Int => *Box::new(mem(id("dv"), "extra")),
                4 if ty == Ty::Int => self.rng.pick(&[mem(id("a"), "k"), mem(id("a"), "ro"), call(mem(id("a"), "count"), vec![])]).clone(),
                5 if ty == Ty::Str => call(mem(id("a"), "label"), vec![Expr::Int(1, "1".into())]),
                5 if ty == Ty::Double => call(mem(id("a"), "scaled"), vec![Expr::Float("1.5".into())]),
                5 if ty == Ty::PBase => call(mem(id("a"), "pick"), vec![Expr::Int(0, "0".into())]),
                6 if ty == Ty::Str => Expr::Subscript(Box::new(mem(id("a"), "items")), Box::new(Expr::Int(0, "0".into()))),
                6 if ty == Ty::Int => Expr::Subscript(Box::new(mem(id("a"), "ints")), Box::new(mem(id("b"), "i"))),
                _ => {
                    let o = self.object_of("VBase");
                    mem(o, p)
                }
            };
        }
        match ty {
            Ty::Int => self.int_literal(),
            Ty::Uint => {
                if self.constant_only {
                    self.int_literal()
                } else {
                    as_(mem(id("a"), "i"), &["uint"])
                }
            }
            Ty::Double => self.float_literal(),
            Ty::Bool => Expr::Bool(self.rng.chance(1, 2)),
            Ty::Str => {
                if self.rng.chance(1, 4) {
                    call(id("qsTr"), vec![self.str_literal()])
                } else {
                    self.str_literal()
                }
            }
            Ty::Mode => mem(id("VBase"), *self.rng.pick(&["ModeA", "ModeB", "ModeC"])),
            Ty::Other => mem(id("VBase"), *self.rng.pick(&["OtherX", "OtherY"])),
            Ty::Flags => {
                let a = mem(id("VBase"), *self.rng.pick(&["FlagOne", "FlagTwo", "FlagFour"]));
                if self.rng.chance(1, 2) {
                    bin("bor", a, mem(id("VBase"), *self.rng.pick(&["FlagOne", "FlagTwo", "FlagNone"])))
                } else {
                    a
                }
            }
            Ty::PBase => {
                if self.constant_only {
                    id(*self.rng.pick(&["a", "b"]))
                } else {
                    self.object_of("VBase")
                }
            }
            Ty::POther => id("o"),
            Ty::PDerived => id("dv"),
            Ty::StrList => Expr::Array((0..self.rng.below(4)).map(|_| self.str_literal()).collect()),
            Ty::IntList => mem(id("a"), "ints"),
            Ty::Variant => mem(id("a"), "vr"),
        }
    }

    fn other_type(&mut self, ty: Ty) -> Ty {
        loop {
            let t = *self.rng.pick(ALL_TYS);
            if t != ty {
                return t;
            }
        }
    }

    /// an expression intended to have type `ty` (with noise: sometimes of another type)
    pub fn expr(&mut self, ty: Ty, depth: usize) -> Expr {
        let ty = if self.noise > 0 && self.rng.chance(self.noise, 1000) { self.other_type(ty) } else { ty };
        if depth == 0 || self.rng.chance(1, 4) {
            return self.leaf(ty);
        }
        let d = depth - 1;
        match ty {
            Ty::Int | Ty::Uint => match self.rng.below(14) {
                0..=4 => {
                    let op = *self.rng.pick(&["add", "sub", "mul", "div", "rem"]);
                    let (l, r) = (self.expr(ty, d), self.expr(ty, d));
                    bin(op, l, r)
                }
                5 => {
                    let op = *self.rng.pick(&["band", "bxor", "bor"]);
                    let (l, r) = (self.expr(ty, d), self.expr(ty, d));
                    bin(op, l, r)
                }
                6 => {
                    let op = *self.rng.pick(&["shl", "shr"]);
                    let l = self.expr(ty, d);
                    let r = if self.rng.chance(1, 2) { Expr::Int(self.rng.below(70) as u64, String::new()) } else { self.expr(Ty::Int, d) };
                    let r = match r {
                        Expr::Int(v, _) => Expr::Int(v, v.to_string()),
                        x => x,
                    };
                    bin(op, l, r)
                }
                7 => {
                    let op = *self.rng.pick(&["minus", "plus", "bitnot"]);
                    let a = self.expr(ty, d);
                    un(op, a)
                }
                8 => {
                    let f = *self.rng.pick(&["max", "min"]);
                    let (l, r) = (self.expr(ty, d), self.expr(ty, d));
                    call(mem(id("Math"), f), vec![l, r])
                }
                9 => {
                    let (c, a, b) = (self.expr(Ty::Bool, d), self.expr(ty, d), self.expr(ty, d));
                    tern(c, a, b)
                }
                10 => {
                    // casts into the integer types
                    let from = *self.rng.pick(&[Ty::Double, Ty::Bool, Ty::Mode, Ty::Flags, Ty::Int, Ty::Uint, Ty::Variant]);
                    let v = self.expr(from, d);
                    as_(v, if ty == Ty::Int { &["int"] } else { &["uint"] })
                }
                11 if ty == Ty::Int => {
                    let (x, y, z) = (self.expr(Ty::Int, d), self.expr(Ty::Int, d), self.expr(Ty::Int, d));
                    call(mem(id("a"), "sum3"), vec![x, y, z])
                }
                _ => self.leaf(ty),
            },
            Ty::Double => match self.rng.below(8) {
                0..=2 => {
                    let op = *self.rng.pick(&["add", "sub", "mul", "div", "rem"]);
                    let (l, r) = (self.expr(ty, d), self.expr(ty, d));
                    bin(op, l, r)
                }
                3 => {
                    let a = self.expr(ty, d);
                    un(*self.rng.pick(&["minus", "plus"]), a)
                }
                4 => {
                    let v = { let t = *self.rng.pick(&[Ty::Int, Ty::Uint]); self.expr(t, d) };
                    as_(v, &["double"])
                }
                5 => {
                    let (c, a, b) = (self.expr(Ty::Bool, d), self.expr(ty, d), self.expr(ty, d));
                    tern(c, a, b)
                }
                6 => {
                    let f = *self.rng.pick(&["max", "min"]);
                    let (l, r) = (self.expr(ty, d), self.expr(ty, d));
                    call(mem(id("Math"), f), vec![l, r])
                }
                _ => self.leaf(ty),
            },
            Ty::Bool => match self.rng.below(12) {
                0..=2 => {
                    let t = *self.rng.pick(&[Ty::Int, Ty::Uint, Ty::Double, Ty::Str, Ty::Bool, Ty::Mode, Ty::Flags, Ty::PBase]);
                    let op = if matches!(t, Ty::PBase | Ty::Mode | Ty::Flags) {
                        *self.rng.pick(&["eq", "ne", "seq", "sne"])
                    } else {
                        *self.rng.pick(&["eq", "ne", "lt", "le", "gt", "ge", "seq", "sne"])
                    };
                    let (l, r) = (self.expr(t, d), self.expr(t, d));
                    bin(op, l, r)
                }
                3 | 4 => {
                    let op = *self.rng.pick(&["land", "lor"]);
                    let (l, r) = (self.expr(ty, d), self.expr(ty, d));
                    bin(op, l, r)
                }
                5 => {
                    let a = self.expr(ty, d);
                    un("not", a)
                }
                6 => {
                    let (c, a, b) = (self.expr(Ty::Bool, d), self.expr(ty, d), self.expr(ty, d));
                    tern(c, a, b)
                }
                7 => {
                    let s = { let t = *self.rng.pick(&[Ty::Str, Ty::StrList]); self.expr(t, d) };
                    call(Expr::Member(Box::new(s), "isEmpty".into()), vec![])
                }
                8 => {
                    let p = self.expr(Ty::PBase, d);
                    bin(*self.rng.pick(&["eq", "ne"]), p, Expr::Null)
                }
                9 => {
                    let op = *self.rng.pick(&["band", "bxor", "bor"]);
                    let (l, r) = (self.expr(ty, d), self.expr(ty, d));
                    bin(op, l, r)
                }
                10 => {
                    let (s, i) = (self.expr(Ty::Str, d), self.expr(Ty::Int, d));
                    call(mem(id("a"), "test"), vec![s, i])
                }
                _ => self.leaf(ty),
            },
            Ty::Str => match self.rng.below(8) {
                0..=2 => {
                    let (l, r) = (self.expr(ty, d), self.expr(ty, d));
                    bin("add", l, r)
                }
                3 => {
                    let (c, a, b) = (self.expr(Ty::Bool, d), self.expr(ty, d), self.expr(ty, d));
                    tern(c, a, b)
                }
                4 => {
                    let s = self.expr(ty, d);
                    let arg = { let t = *self.rng.pick(&[Ty::Int, Ty::Str, Ty::Double, Ty::Uint]); self.expr(t, d) };
                    call(Expr::Member(Box::new(s), "arg".into()), vec![arg])
                }
                5 => {
                    let i = self.expr(Ty::Int, d);
                    call(mem(id("a"), "label"), vec![i])
                }
                6 => {
                    let f = *self.rng.pick(&["max", "min"]);
                    let (l, r) = (self.expr(ty, d), self.expr(ty, d));
                    call(mem(id("Math"), f), vec![l, r])
                }
                _ => self.leaf(ty),
            },
            Ty::Mode | Ty::Other => match self.rng.below(3) {
                0 => {
                    let (c, a, b) = (self.expr(Ty::Bool, d), self.expr(ty, d), self.expr(ty, d));
                    tern(c, a, b)
                }
                _ => self.leaf(ty),
            },
            Ty::Flags => match self.rng.below(5) {
                0 | 1 => {
                    let op = *self.rng.pick(&["band", "bxor", "bor"]);
                    let (l, r) = (self.expr(ty, d), self.expr(ty, d));
                    bin(op, l, r)
                }
                2 => {
                    let a = self.expr(ty, d);
                    un("bitnot", a)
                }
                3 => {
                    let (c, a, b) = (self.expr(Ty::Bool, d), self.expr(ty, d), self.expr(ty, d));
                    tern(c, a, b)
                }
                _ => self.leaf(ty),
            },
            Ty::PBase => match self.rng.below(5) {
                0 => {
                    let (c, a, b) = (self.expr(Ty::Bool, d), self.expr(ty, d), self.expr(ty, d));
                    tern(c, a, b)
                }
                1 => {
                    let v = self.expr(Ty::PDerived, d);
                    as_(v, &["VBase"])
                }
                2 => {
                    let o = self.expr(Ty::PBase, d);
                    mem(o, "next")
                }
                _ => self.leaf(ty),
            },
            Ty::StrList => match self.rng.below(3) {
                0 => Expr::Array((0..self.rng.below(4)).map(|_| self.expr(Ty::Str, d)).collect()),
                1 => {
                    let (c, a, b) = (self.expr(Ty::Bool, d), self.expr(ty, d), self.expr(ty, d));
                    tern(c, a, b)
                }
                _ => self.leaf(ty),
            },
            _ => self.leaf(ty),
        }
    }

    fn fresh_local(&mut self) -> String {
        self.next_local += 1;
        format!("v{}", self.next_local)
    }

    /// statements ending (on every path, mostly) in a value of type `ty`: used for property bindings
    pub fn value_block(&mut self, ty: Ty, depth: usize) -> Vec<Stmt> {
        let mut out = vec![];
        let saved = self.locals.len();
        for _ in 0..self.rng.below(3) {
            let lt = *self.rng.pick(&[Ty::Int, Ty::Bool, Ty::Str, Ty::Double, Ty::PBase, ty]);
            let name = self.fresh_local();
            let is_const = self.rng.chance(1, 3);
            let value = if is_const || self.rng.chance(3, 4) { Some(self.expr(lt, depth.min(2))) } else { None };
            let annotate = value.is_none() || self.rng.chance(1, 4);
            out.push(Stmt::Lexical(
                is_const,
                vec![Decl { name: name.clone(), ty: if annotate { Some(lt.annotation()) } else { None }, value }],
            ));
            self.locals.push((name, lt, is_const));
        }
        match self.rng.below(7) {
            0 | 1 => out.push(self.tail(ty, depth)),
            6 => {
                // scoping: a declaration made DIRECTLY in a branch (no braces) or in a switch clause shadows an outer
                // variable only inside that branch / the switch; the other branch and the code after it see the outer one
                let name = self.fresh_local();
                let outer = self.expr(ty, depth.min(1));
                out.push(Stmt::Lexical(false, vec![Decl { name: name.clone(), ty: None, value: Some(outer) }]));
                self.locals.push((name.clone(), ty, false));
                let c = self.expr(Ty::Bool, depth.min(2));
                let inner = self.expr(ty, depth.min(1));
                let shadow = Stmt::Lexical(self.rng.chance(1, 2), vec![Decl { name: name.clone(), ty: None, value: Some(inner) }]);
                match self.rng.below(3) {
                    0 => {
                        // if (c) let v = …; else return <uses outer v>;
                        let r = self.expr(ty, depth.min(2));
                        out.push(Stmt::If(c, Box::new(shadow), Some(Box::new(Stmt::Return(Some(r))))));
                    }
                    1 => {
                        // if (c) return <uses outer v>; else let v = …;
                        let r = self.expr(ty, depth.min(2));
                        out.push(Stmt::If(c, Box::new(Stmt::Return(Some(r))), Some(Box::new(shadow))));
                    }
                    _ => {
                        let sv = self.expr(Ty::Int, depth.min(1));
                        out.push(Stmt::Switch(sv, vec![(Some(Expr::Int(0, "0".into())), vec![shadow, Stmt::Break(false)]), (None, vec![])]));
                    }
                }
                out.push(Stmt::Return(Some(id(&name))));
            }
            2 => {
                // if / else
                let c = self.expr(Ty::Bool, depth.min(2));
                let a = Stmt::Block(self.value_block(ty, depth.saturating_sub(1)));
                let b = if self.rng.chance(2, 3) { Some(Box::new(Stmt::Block(self.value_block(ty, depth.saturating_sub(1))))) } else { None };
                let has_else = b.is_some();
                out.push(Stmt::If(c, Box::new(a), b));
                if !has_else || self.rng.chance(1, 3) {
                    out.push(self.tail(ty, depth));
                }
            }
            3 => {
                // switch
                let st = *self.rng.pick(&[Ty::Int, Ty::Mode, Ty::Str]);
                let v = self.expr(st, depth.min(2));
                let n = self.rng.below(4);
                let default_at = if self.rng.chance(2, 3) { Some(self.rng.below(n + 1)) } else { None };
                let mut clauses = vec![];
                let was = self.in_switch;
                self.in_switch = true;
                for k in 0..=n {
                    if Some(k) == default_at {
                        let body = self.switch_body(ty, depth);
                        clauses.push((None, body));
                    }
                    if k < n {
                        let saved_const = self.constant_only;
                        // case labels: mostly leaves, a third compound (ternary / logical / arithmetic, with their own
                        // control flow inside the comparison chain)
                        let label_depth = if self.rng.chance(1, 3) { 1 + self.rng.below(2) } else { 0 };
                        let cv = self.expr(st, label_depth);
                        self.constant_only = saved_const;
                        let body = self.switch_body(ty, depth);
                        clauses.push((Some(cv), body));
                    }
                }
                self.in_switch = was;
                self.clause_scope_variation(Some(ty), &mut out, &mut clauses);
                out.push(Stmt::Switch(v, clauses));
                out.push(self.tail(ty, depth));
            }
            4 => {
                // early return under a condition
                let c = self.expr(Ty::Bool, depth.min(2));
                let r = self.expr(ty, depth.min(2));
                out.push(Stmt::If(c, Box::new(Stmt::Return(Some(r))), None));
                out.push(self.tail(ty, depth));
            }
            _ => {
                // assignment to a let local, then use it
                if let Some((name, lt, _)) = self.locals.iter().rev().find(|l| !l.2).cloned() {
                    let v = self.expr(lt, depth.min(2));
                    out.push(Stmt::Expr(Expr::Assign(Box::new(id(&name)), Box::new(v))));
                }
                out.push(self.tail(ty, depth));
            }
        }
        self.locals.truncate(saved);
        out
    }

    /// Clause scoping of `switch` (finding F100): with probability 1/4 a switch with at least two clauses gets a clause
    /// that declares a variable WITH initialiser and a LATER clause (reached by fall-through or by the jump from the
    /// head) that reads or assigns it — either with no outer variable of that name (the reference must be rejected,
    /// by the real code and the model alike: `undefined reference`) or shadowing an outer variable declared before
    /// the switch (the later clause must see the OUTER one: value checks of C01/C13).  `ty`: the binding's type, or
    /// `None` in a callback (the use is then a property write / console call).
    /// The MAIN random stream is not consumed: decisions and sub-expressions come from a generator forked from a
    /// hash of the switch generated so far, so every draw of every other program is what it was before.
    fn clause_scope_variation(&mut self, ty: Option<Ty>, out: &mut Vec<Stmt>, clauses: &mut [(Option<Expr>, Vec<Stmt>)]) {
        if clauses.len() < 2 {
            return;
        }
        let mut h: u64 = 0xcbf29ce484222325;
        for b in format!("{:?}", clauses).bytes() {
            h = (h ^ b as u64).wrapping_mul(0x100000001b3);
        }
        let mut r2 = Rng::fork(h, "clause-scope", clauses.len() as u64);
        if !r2.chance(1, 4) {
            return;
        }
        let i = r2.below(clauses.len() - 1);
        let j = i + 1 + r2.below(clauses.len() - 1 - i);
        let name = format!("cv{}", self.next_local);
        let vt = ty.unwrap_or(Ty::Int);
        let (outer, inner, other, leak, action, inner_const) = {
            let mut g2 = Gen::new(&mut r2, 0);
            g2.locals = self.locals.clone();
            g2.constant_only = self.constant_only;
            g2.next_local = self.next_local + 100;
            let outer = g2.expr(vt, 1);
            let inner = g2.expr(vt, 1);
            let other = g2.expr(vt, 1);
            (outer, inner, other, g2.rng.chance(1, 2), g2.rng.below(3), g2.rng.chance(1, 3))
        };
        if !leak {
            out.push(Stmt::Lexical(false, vec![Decl { name: name.clone(), ty: None, value: Some(outer) }]));
        }
        clauses[i].1.insert(0, Stmt::Lexical(inner_const, vec![Decl { name: name.clone(), ty: None, value: Some(inner) }]));
        let assign = |l: Expr, r: Expr| Stmt::Expr(Expr::Assign(Box::new(l), Box::new(r)));
        let uses: Vec<Stmt> = match (ty, action) {
            (Some(_), 0) => vec![Stmt::Return(Some(id(&name)))],
            (Some(_), 1) => vec![assign(id(&name), other), Stmt::Return(Some(id(&name)))],
            (Some(_), _) => vec![Stmt::Expr(id(&name))],
            (None, 0) => vec![assign(mem(id("b"), "i"), id(&name))],
            (None, 1) => vec![assign(id(&name), other), assign(mem(id("b"), "i"), id(&name))],
            (None, _) => vec![Stmt::Expr(call(mem(id("console"), "log"), vec![id(&name)]))],
        };
        for (k, st) in uses.into_iter().enumerate() {
            clauses[j].1.insert(k, st);
        }
    }

    fn tail(&mut self, ty: Ty, depth: usize) -> Stmt {
        let e = self.expr(ty, depth);
        if self.rng.chance(1, 2) {
            Stmt::Return(Some(e))
        } else {
            Stmt::Expr(e)
        }
    }

    fn switch_body(&mut self, ty: Ty, depth: usize) -> Vec<Stmt> {
        let mut b = vec![];
        match self.rng.below(6) {
            0 => {} // empty: fall through
            1 => b.push(Stmt::Return(Some(self.expr(ty, depth.min(1))))),
            2 => {
                b.push(Stmt::Expr(self.expr(ty, depth.min(1))));
                b.push(Stmt::Break(false));
            }
            3 => {
                let c = self.expr(Ty::Bool, 1);
                b.push(Stmt::If(c, Box::new(Stmt::Break(false)), None));
                b.push(Stmt::Expr(self.expr(ty, depth.min(1))));
            }
            4 => b.push(Stmt::Expr(self.expr(ty, depth.min(1)))), // falls through
            _ => b.push(Stmt::Break(false)),
        }
        b
    }

    /// a property-binding program of type `ty`
    pub fn binding(&mut self, ty: Ty, depth: usize) -> Program {
        if self.rng.chance(3, 5) {
            Program::Stmt(Stmt::Expr(self.expr(ty, depth)))
        } else {
            let b = self.value_block(ty, depth);
            Program::Stmt(Stmt::Block(self.mixed_constness_variation(ty, b)))
        }
    }

    /// Mixed constness of the paths of a block binding (round-4 seed C02/7: a constant fast path that looks at the wrong
    /// block folds the whole binding to a literal).  With probability 1/4 a generated block binding is REPLACED by a block
    /// whose COMPLETION value (final expression statement or final `return`) is a literal / constant expression while an
    /// earlier path returns a value read from properties — early return in an `if`, in an `else if` chain, in switch
    /// clauses, after a `let` — or by the mirror image (constant early returns, dynamic completion), or by an all-constant
    /// block under a dynamic or a literal condition; for every result type.  None of them may be evaluated as a constant
    /// (C06: the `eval` field of the exact IR comparison; C01: the value differs by state; C02/C03 through the same IR).
    /// The MAIN random stream is not consumed: everything comes from a generator forked from a hash of the block that is
    /// replaced, so every draw of every other program is what it was before.
    fn mixed_constness_variation(&mut self, ty: Ty, block: Vec<Stmt>) -> Vec<Stmt> {
        if self.constant_only {
            return block;
        }
        let mut h: u64 = 0xcbf29ce484222325;
        for b in format!("{:?}", block).bytes() {
            h = (h ^ b as u64).wrapping_mul(0x100000001b3);
        }
        let mut r2 = Rng::fork(h, "mixed-constness", block.len() as u64);
        if !r2.chance(1, 4) {
            return block;
        }
        let mut g = Gen::new(&mut r2, 0);
        g.next_local = self.next_local + 200;
        // a constant expression of the result type (literals, enumerators, object ids, folded operators)
        fn konst(g: &mut Gen<'_>, ty: Ty) -> Expr {
            g.constant_only = true;
            let d = g.rng.below(2);
            let e = g.expr(ty, d);
            g.constant_only = false;
            e
        }
        // an expression of the result type that certainly reads a property
        fn dynamic(g: &mut Gen<'_>, ty: Ty) -> Expr {
            let p = *g.rng.pick(ty.base_props());
            let direct = match g.rng.below(3) {
                0 => mem(id("b"), p),
                1 => mem(mem(id("a"), "next"), p),
                _ => tern(mem(id("b"), "c"), mem(id("b"), p), mem(id("a"), p)),
            };
            if g.rng.chance(1, 2) {
                return direct;
            }
            let e = g.expr(ty, 1);
            let text = format!("{e:?}");
            if text.contains("Member(Ident(\"a\")") || text.contains("Member(Ident(\"b\")") || text.contains("Member(Ident(\"o\")") {
                e
            } else {
                direct
            }
        }
        fn cond(g: &mut Gen<'_>) -> Expr {
            match g.rng.below(4) {
                0 => mem(id("b"), "b"),
                1 => bin("gt", mem(id("b"), "i"), Expr::Int(0, "0".into())),
                2 => un("not", mem(id("a"), "c")),
                _ => bin("land", mem(id("b"), "b"), bin("ne", mem(id("a"), "next"), Expr::Null)),
            }
        }
        let ret = |e: Expr| Stmt::Return(Some(e));
        let mirror = g.rng.chance(1, 2);
        // `early`: the values of the early returns, `last`: the completion value
        let (mut early, last): (Box<dyn FnMut(&mut Gen<'_>) -> Expr>, Expr) = if mirror {
            (Box::new(move |g: &mut Gen<'_>| konst(g, ty)), dynamic(&mut g, ty))
        } else {
            (Box::new(move |g: &mut Gen<'_>| dynamic(g, ty)), konst(&mut g, ty))
        };
        // the completion: an expression statement (the completion value proper) or a final `return`
        let completion = if g.rng.chance(2, 3) { Stmt::Expr(last.clone()) } else { ret(last.clone()) };
        let sw_value = mem(id("b"), "i");
        let mut out = vec![];
        match g.rng.below(9) {
            0 => {
                out.push(Stmt::If(cond(&mut g), Box::new(ret(early(&mut g))), None));
                out.push(completion);
            }
            1 => {
                // else-if chain
                let inner = Stmt::If(cond(&mut g), Box::new(ret(early(&mut g))), None);
                out.push(Stmt::If(cond(&mut g), Box::new(ret(early(&mut g))), Some(Box::new(inner))));
                out.push(completion);
            }
            2 => {
                // switch clauses that return
                let c0 = vec![ret(early(&mut g))];
                let c1 = vec![ret(early(&mut g))];
                out.push(Stmt::Switch(sw_value, vec![(Some(Expr::Int(0, "0".into())), c0), (Some(Expr::Int(1, "1".into())), c1)]));
                out.push(completion);
            }
            3 => {
                // a clause that returns, a default that breaks
                let c0 = vec![ret(early(&mut g))];
                out.push(Stmt::Switch(sw_value, vec![(Some(Expr::Int(2, "2".into())), c0), (None, vec![Stmt::Break(false)])]));
                out.push(completion);
            }
            4 => {
                // after a let: the early return goes through a variable
                let name = format!("mc{}", self.next_local);
                out.push(Stmt::Lexical(g.rng.chance(1, 2), vec![Decl { name: name.clone(), ty: None, value: Some(early(&mut g)) }]));
                out.push(Stmt::If(cond(&mut g), Box::new(ret(id(&name))), None));
                out.push(completion);
            }
            5 => {
                // the completion value inside the else branch (a block), the early value in the then branch
                let a = Stmt::Block(vec![ret(early(&mut g))]);
                let b = Stmt::Block(vec![completion]);
                out.push(Stmt::If(cond(&mut g), Box::new(a), Some(Box::new(b))));
            }
            6 => {
                // both values through expression statements: the completion value of either branch
                let a = Stmt::Block(vec![Stmt::Expr(early(&mut g))]);
                let b = Stmt::Block(vec![Stmt::Expr(last.clone())]);
                out.push(Stmt::If(cond(&mut g), Box::new(a), Some(Box::new(b))));
            }
            7 => {
                // all paths constant, under a dynamic condition: still not a constant
                let k1 = konst(&mut g, ty);
                let k2 = konst(&mut g, ty);
                out.push(Stmt::If(cond(&mut g), Box::new(ret(k1)), None));
                out.push(if g.rng.chance(1, 2) { Stmt::Expr(k2) } else { ret(k2) });
            }
            _ => {
                // a dynamic statement first (its value is dropped), then the completion; and a literal condition
                out.push(Stmt::Expr(dynamic(&mut g, ty)));
                out.push(Stmt::If(Expr::Bool(g.rng.chance(1, 2)), Box::new(ret(early(&mut g))), None));
                out.push(completion);
            }
        }
        out
    }

    /// effectful statements for callbacks
    pub fn effect_stmts(&mut self, depth: usize, n: usize) -> Vec<Stmt> {
        let mut out = vec![];
        let saved = self.locals.len();
        for _ in 0..n {
            match self.rng.below(10) {
                0..=2 => {
                    // property write
                    let ty = *self.rng.pick(&[Ty::Int, Ty::Str, Ty::Bool, Ty::Double, Ty::Mode, Ty::Flags, Ty::PBase, Ty::StrList, Ty::Uint]);
                    let obj = self.object_of("VBase");
                    let p = *self.rng.pick(ty.base_props());
                    let target = if self.rng.chance(1, 5) { id(p) } else { mem(obj, p) };
                    let v = self.expr(ty, depth);
                    out.push(Stmt::Expr(Expr::Assign(Box::new(target), Box::new(v))));
                }
                3 => {
                    let m = *self.rng.pick(&["reset", "setBoth", "take", "bump"]);
                    let args = match m {
                        "reset" => vec![],
                        "setBoth" => vec![self.expr(Ty::Int, depth), self.expr(Ty::Str, depth)],
                        "take" => vec![self.expr(Ty::PBase, depth)],
                        _ => vec![{ let t = *self.rng.pick(&[Ty::Int, Ty::Double]); self.expr(t, depth) }],
                    };
                    let o = self.object_of("VBase");
                    out.push(Stmt::Expr(call(mem(o, m), args)));
                }
                4 => {
                    let lv = *self.rng.pick(&["log", "debug", "info", "warn", "error"]);
                    let n = self.rng.below(3);
                    let args = (0..=n).map(|_| { let t = *self.rng.pick(&[Ty::Int, Ty::Str, Ty::Bool, Ty::Double]); self.expr(t, depth.min(1)) }).collect();
                    out.push(Stmt::Expr(call(mem(id("console"), lv), args)));
                }
                5 => {
                    let lt = *self.rng.pick(&[Ty::Int, Ty::Str, Ty::Bool, Ty::PBase, Ty::StrList]);
                    let name = self.fresh_local();
                    let v = self.expr(lt, depth);
                    out.push(Stmt::Lexical(false, vec![Decl { name: name.clone(), ty: None, value: Some(v) }]));
                    self.locals.push((name, lt, false));
                }
                6 => {
                    let c = self.expr(Ty::Bool, depth);
                    let k = 1 + self.rng.below(2);
                    let a = Stmt::Block(self.effect_stmts(depth.saturating_sub(1), k));
                    let b = if self.rng.chance(1, 2) { Some(Box::new(Stmt::Block(self.effect_stmts(depth.saturating_sub(1), 1)))) } else { None };
                    out.push(Stmt::If(c, Box::new(a), b));
                }
                7 => {
                    if let Some((name, lt, _)) = self.locals.iter().rev().find(|l| !l.2).cloned() {
                        let v = self.expr(lt, depth);
                        out.push(Stmt::Expr(Expr::Assign(Box::new(id(&name)), Box::new(v))));
                    }
                }
                8 => {
                    let v = self.expr(Ty::Int, depth.min(1));
                    let n = self.rng.below(3);
                    let mut clauses = vec![];
                    let was = self.in_switch;
                    self.in_switch = true;
                    for k in 0..n {
                        let mut body = self.effect_stmts(0, 1);
                        if self.rng.chance(2, 3) {
                            body.push(Stmt::Break(false));
                        }
                        let label = if self.rng.chance(1, 3) {
                            let d = 1 + self.rng.below(2);
                            self.expr(Ty::Int, d)
                        } else {
                            Expr::Int(k as u64, k.to_string())
                        };
                        clauses.push((Some(label), body));
                    }
                    if self.rng.chance(1, 2) {
                        let at = self.rng.below(clauses.len() + 1);
                        clauses.insert(at, (None, self.effect_stmts(0, 1)));
                    }
                    self.in_switch = was;
                    self.clause_scope_variation(None, &mut out, &mut clauses);
                    out.push(Stmt::Switch(v, clauses));
                }
                _ => {
                    if self.rng.chance(1, 3) {
                        // `return;` or `return <value>;` (the value of a handler is discarded, its effects are not):
                        // literals, enumerators, locals and compound expressions of every scalar type
                        if self.rng.chance(1, 2) {
                            out.push(Stmt::Return(None));
                        } else {
                            let t = *self.rng.pick(&[Ty::Int, Ty::Str, Ty::Bool, Ty::Double]);
                            let d = self.rng.below(2);
                            let e = self.expr(t, d);
                            out.push(Stmt::Return(Some(e)));
                        }
                    } else {
                        let e = self.expr(Ty::Int, depth.min(1));
                        out.push(Stmt::Expr(as_(e, &["void"])));
                    }
                }
            }
        }
        self.locals.truncate(saved);
        out
    }

    /// a callback for a signal with the given parameter types
    pub fn callback(&mut self, sig_params: &[Ty], depth: usize) -> Program {
        match self.rng.below(4) {
            0 => {
                let s = self.effect_stmts(depth, 1);
                match s.into_iter().next() {
                    Some(Stmt::Expr(e)) => Program::Stmt(Stmt::Expr(e)),
                    Some(other) => Program::Stmt(Stmt::Block(vec![other])),
                    None => Program::Stmt(Stmt::Block(vec![])),
                }
            }
            1 => {
                let k = 1 + self.rng.below(3);
                Program::Stmt(Stmt::Block(self.effect_stmts(depth, k)))
            }
            _ => {
                let take = self.rng.below(sig_params.len() + 1);
                let mut params = vec![];
                for (k, t) in sig_params.iter().take(take).enumerate() {
                    let name = format!("p{k}");
                    params.push((name.clone(), Some(t.annotation())));
                    self.locals.push((name, *t, false));
                }
                let k = 1 + self.rng.below(3);
                let body = Stmt::Block(self.effect_stmts(depth, k));
                self.locals.clear();
                Program::Function { named: false, params, body: FnBody::Stmt(body), arrow: false }
            }
        }
    }
}
