//! `qv-harness dump-env`: prints lean/QV/Gen/VerifEnv.lean — what the REAL type map (Qt metatypes + verif.json, after
//! metatype_tweak) answers for the verification classes, queried through qmluic's public API.  Regenerated on
//! every run, so the Lean model's environment is what the current code computes (C17 is about how it computes it).
use crate::env;
use qmluic::typemap::{Class, ImportedModuleSpace, Method, MethodKind, ModuleId, NamedType, PrimitiveType, Property, TypeKind, TypeSpace as _};
use std::collections::BTreeSet;

fn q(s: &str) -> String {
    format!("{s:?}")
}

fn named(t: &NamedType) -> String {
    match t {
        NamedType::Primitive(p) => format!(
            ".prim .{}",
            match p {
                PrimitiveType::Bool => "bool",
                PrimitiveType::Double => "double",
                PrimitiveType::Int => "int",
                PrimitiveType::QString => "qstring",
                PrimitiveType::QVariant => "qvariant",
                PrimitiveType::Uint => "uint",
                PrimitiveType::Void => "void",
            }
        ),
        NamedType::Enum(e) => format!(".enum {}", q(&e.qualified_cxx_name())),
        NamedType::Class(c) => format!(".cls {}", q(&c.qualified_cxx_name())),
        NamedType::Namespace(n) => format!(".ns {}", q(&n.qualified_cxx_name())),
        NamedType::QmlComponent(c) => format!(".comp {}", q(&c.as_class().qualified_cxx_name())),
    }
}

fn kind(t: &TypeKind) -> String {
    match t {
        TypeKind::Just(n) => format!("(.just ({}))", named(n)),
        TypeKind::Pointer(n) => format!("(.pointer ({}))", named(n)),
        TypeKind::List(e) => format!("(.list {})", kind(e)),
    }
}

fn method(m: &Method) -> String {
    format!(
        "{{ cls := {}, name := {}, args := [{}], ret := {}, kind := .{} }}",
        q(&m.object_class().qualified_cxx_name()),
        q(m.name()),
        m.argument_types().iter().map(kind).collect::<Vec<_>>().join(", "),
        kind(m.return_type()),
        match m.kind() {
            MethodKind::Signal => "signal",
            MethodKind::Slot => "slot",
            MethodKind::Method => "method",
        }
    )
}

fn property(p: &Property) -> String {
    let notify = match p.notify_signal() {
        None => "none".to_owned(),
        Some(Err(_)) => "some none".to_owned(),
        Some(Ok(m)) => format!("some (some {})", method(&m)),
    };
    format!(
        "{{ cls := {}, name := {}, ty := {}, readable := {}, writable := {}, constant := {}, notify := {}, readFn := {}, writeFn := {} }}",
        q(&p.object_class().qualified_cxx_name()),
        q(p.name()),
        kind(p.value_type()),
        p.is_readable(),
        p.is_writable(),
        p.is_constant(),
        notify,
        q(p.read_func_name().unwrap_or("")),
        q(p.write_func_name().unwrap_or(""))
    )
}

fn candidate_names() -> BTreeSet<String> {
    let mut names = BTreeSet::new();
    let mut files = vec![include_str!("../metatypes/verif.json").to_owned()];
    for p in ["core", "gui", "widgets"] {
        files.push(std::fs::read_to_string(format!("{}/contrib/metatypes/qt5{p}_metatypes.json", env::REPO)).unwrap());
    }
    let wanted = ["VBase", "VDerived", "VOther", "QWidget", "QObject", "QPaintDevice"];
    for f in files {
        let v: serde_json::Value = serde_json::from_str(&f).unwrap();
        for unit in v.as_array().unwrap() {
            for c in unit["classes"].as_array().map(|x| x.as_slice()).unwrap_or(&[]) {
                if !wanted.contains(&c["className"].as_str().unwrap_or("")) {
                    continue;
                }
                for key in ["properties", "signals", "slots", "methods", "enums"] {
                    for x in c[key].as_array().map(|x| x.as_slice()).unwrap_or(&[]) {
                        if let Some(n) = x["name"].as_str() {
                            names.insert(n.to_owned());
                        }
                        for v in x["values"].as_array().map(|x| x.as_slice()).unwrap_or(&[]) {
                            names.insert(v.as_str().unwrap().to_owned());
                        }
                    }
                }
            }
        }
    }
    // metatype_tweak additions and pseudo classes
    for n in ["arg", "isEmpty", "actions", "default_", "separator", "model", "buddy", "contentsMargins"] {
        names.insert(n.to_owned());
    }
    names
}

fn class_info(name: &str, cls: &Class, names: &BTreeSet<String>, family: &[(&str, Class)], object: &Class) -> String {
    let mut props = vec![];
    let mut methods = vec![];
    let mut variants = vec![];
    let mut nested = vec![];
    for n in names {
        if let Some(Ok(p)) = cls.get_property(n) {
            props.push(property(&p));
        }
        if let Some(Ok(ms)) = cls.get_public_method(n) {
            methods.push(format!("({}, [{}])", q(n), ms.iter().map(method).collect::<Vec<_>>().join(", ")));
        }
        if let Some(Ok(e)) = cls.get_enum_by_variant(n) {
            variants.push(format!("({}, {})", q(n), q(&e.qualified_cxx_name())));
        }
        if let Some(Ok(t)) = cls.get_type(n) {
            nested.push(format!("({}, {})", q(n), named(&t)));
        }
    }
    let ancestors: Vec<String> = family.iter().filter(|(_, c)| cls.is_derived_from(c)).map(|(n, _)| q(n)).collect();
    format!(
        "  {{ name := {}, isObject := {}, ancestors := [{}],\n    props := [\n      {}],\n    methods := [\n      {}],\n    variants := [{}],\n    nested := [{}] }}",
        q(name),
        cls.is_derived_from(object),
        ancestors.join(", "),
        props.join(",\n      "),
        methods.join(",\n      "),
        variants.join(", "),
        nested.join(", ")
    )
}

pub fn dump() -> String {
    let tm = env::load_verif_type_map();
    let mut space = ImportedModuleSpace::new(&tm);
    assert!(space.import_module(ModuleId::Builtins));
    assert!(space.import_module(ModuleId::Named("qmluic.QtWidgets")));
    let names = candidate_names();
    let get_class = |n: &str| -> Class { space.get_type(n).unwrap().unwrap().into_class().unwrap() };
    let family_names = ["VBase", "VDerived", "VOther", "QWidget", "QObject", "QPaintDevice"];
    let family: Vec<(&str, Class)> = family_names.iter().map(|n| (*n, get_class(n))).collect();
    let object = get_class("QObject");
    let mut classes = vec![];
    for n in ["VBase", "VDerived", "VOther"] {
        classes.push(class_info(n, &get_class(n), &names, &family, &object));
    }
    classes.push(class_info("QString", &TypeKind::STRING.into_class().unwrap(), &names, &family, &object));
    classes.push(class_info("QList", &TypeKind::List(Box::new(TypeKind::INT)).into_class().unwrap(), &names, &family, &object));
    // global type names
    let mut type_names: Vec<String> = vec![];
    let mut enums = vec![];
    let mut candidates: Vec<String> = ["int", "uint", "double", "qreal", "bool", "QString", "QVariant", "void", "QStringList", "VBase", "VDerived", "VOther", "QWidget", "QObject", "Qt"]
        .iter()
        .map(|s| s.to_string())
        .collect();
    for c in ["VBase", "VOther", "VDerived"] {
        for e in ["Mode", "Other", "Flag", "Flags", "Kind"] {
            candidates.push(format!("{c}::{e}"));
        }
    }
    for n in &candidates {
        if let Some(Ok(t)) = space.get_type_scoped(n) {
            type_names.push(format!("({}, {})", q(n), named(&t)));
            if let NamedType::Enum(e) = &t {
                let alias = match e.alias_enum() {
                    Some(Ok(a)) => format!("some {}", q(&a.qualified_cxx_name())),
                    _ => "none".to_owned(),
                };
                let probe = e.qualify_cxx_variant_name("X");
                let scope = probe.strip_suffix("::X").unwrap_or("").to_owned();
                let entry = format!(
                    "  {{ name := {}, alias := {}, isFlag := {}, isScoped := {}, variants := [{}], variantScope := {} }}",
                    q(&e.qualified_cxx_name()),
                    alias,
                    e.is_flag(),
                    e.is_scoped(),
                    e.variants().map(q).collect::<Vec<_>>().join(", "),
                    q(&scope)
                );
                if !enums.contains(&entry) {
                    enums.push(entry);
                }
            }
        }
    }
    format!(
        "-- GENERATED on every run by `qv-harness dump-env` (tools/gen_verif_env.py) from the real type map — do not edit.\nimport QV.Model.Types\n\nnamespace QV.Gen\nopen QV.Model\n\nset_option maxRecDepth 4000 in\ndef verifEnv : Env := {{\n  classes := [\n{}\n  ],\n  enums := [\n{}\n  ],\n  types := [{}] }}\n\nend QV.Gen\n",
        classes.join(",\n"),
        enums.join(",\n"),
        type_names.join(", ")
    )
}
