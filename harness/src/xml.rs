//! A small, strict, independent XML 1.0 reader (no quick-xml): elements, attributes, character data,
//! the five predefined entities and numeric character references, with line-end and attribute-value
//! normalisation as an XML processor performs them (§2.11, §3.3.3).  Used to read back real `.ui` output.
#[derive(Clone, Debug, PartialEq, Eq)]
pub struct Element {
    pub name: String,
    pub attrs: Vec<(String, String)>,
    pub children: Vec<Node>,
}

#[derive(Clone, Debug, PartialEq, Eq)]
pub enum Node {
    Elem(Element),
    Text(String),
}

impl Element {
    pub fn attr(&self, n: &str) -> Option<&str> {
        self.attrs.iter().find(|(k, _)| k == n).map(|(_, v)| v.as_str())
    }
    pub fn elems(&self) -> impl Iterator<Item = &Element> {
        self.children.iter().filter_map(|c| match c {
            Node::Elem(e) => Some(e),
            _ => None,
        })
    }
    pub fn child(&self, n: &str) -> Option<&Element> {
        self.elems().find(|e| e.name == n)
    }
    pub fn children_named<'a>(&'a self, n: &'a str) -> impl Iterator<Item = &'a Element> + 'a {
        self.elems().filter(move |e| e.name == n)
    }
    /// concatenated character data directly inside this element
    pub fn text(&self) -> String {
        let mut s = String::new();
        for c in &self.children {
            if let Node::Text(t) = c {
                s.push_str(t);
            }
        }
        s
    }
    /// all descendants (pre-order), including self
    pub fn descendants(&self) -> Vec<&Element> {
        let mut v = vec![self];
        let mut i = 0;
        while i < v.len() {
            let e = v[i];
            let kids: Vec<&Element> = e.elems().collect();
            // keep pre-order: insert after i
            for (k, c) in kids.into_iter().enumerate() {
                v.insert(i + 1 + k, c);
            }
            i += 1;
        }
        v
    }
}

pub fn is_xml_char(c: char) -> bool {
    let n = c as u32;
    n == 0x9 || n == 0xA || n == 0xD || (0x20..=0xD7FF).contains(&n) || (0xE000..=0xFFFD).contains(&n) || n >= 0x10000
}

struct P<'a> {
    s: &'a [char],
    i: usize,
}

type R<T> = Result<T, String>;

impl<'a> P<'a> {
    fn peek(&self) -> Option<char> {
        self.s.get(self.i).copied()
    }
    fn starts(&self, t: &str) -> bool {
        let tc: Vec<char> = t.chars().collect();
        self.s.len() >= self.i + tc.len() && self.s[self.i..self.i + tc.len()] == tc[..]
    }
    fn eat(&mut self, t: &str) -> bool {
        if self.starts(t) {
            self.i += t.chars().count();
            true
        } else {
            false
        }
    }
    fn ws(&mut self) {
        while matches!(self.peek(), Some(' ' | '\t' | '\n' | '\r')) {
            self.i += 1;
        }
    }
    fn name(&mut self) -> R<String> {
        let st = self.i;
        while let Some(c) = self.peek() {
            let ok = c.is_alphanumeric() || c == '_' || c == ':' || (self.i > st && (c == '-' || c == '.'));
            if !ok {
                break;
            }
            self.i += 1;
        }
        if self.i == st {
            return Err(format!("name expected at {}", st));
        }
        Ok(self.s[st..self.i].iter().collect())
    }
    fn reference(&mut self) -> R<char> {
        // after '&'
        let st = self.i;
        let end = self.s[st..].iter().position(|&c| c == ';').ok_or("unterminated reference")?;
        let body: String = self.s[st..st + end].iter().collect();
        self.i = st + end + 1;
        let c = match body.as_str() {
            "lt" => '<',
            "gt" => '>',
            "amp" => '&',
            "apos" => '\'',
            "quot" => '"',
            b if b.starts_with("#x") => char::from_u32(u32::from_str_radix(&b[2..], 16).map_err(|e| e.to_string())?)
                .ok_or("bad char ref")?,
            b if b.starts_with('#') => {
                char::from_u32(b[1..].parse::<u32>().map_err(|e| e.to_string())?).ok_or("bad char ref")?
            }
            b => return Err(format!("unknown entity &{b};")),
        };
        if !is_xml_char(c) {
            return Err(format!("character reference to non-XML char U+{:X}", c as u32));
        }
        Ok(c)
    }
    fn attr_value(&mut self) -> R<String> {
        let q = self.peek().ok_or("eof in attribute")?;
        if q != '"' && q != '\'' {
            return Err("attribute value must be quoted".into());
        }
        self.i += 1;
        let mut v = String::new();
        loop {
            let c = self.peek().ok_or("eof in attribute value")?;
            self.i += 1;
            if c == q {
                return Ok(v);
            }
            match c {
                '<' => return Err("'<' in attribute value".into()),
                '&' => v.push(self.reference()?),
                // literal white space is normalised to a space (after line-end normalisation)
                '\r' => {
                    if self.peek() == Some('\n') {
                        self.i += 1;
                    }
                    v.push(' ')
                }
                '\n' | '\t' => v.push(' '),
                c if !is_xml_char(c) => return Err(format!("non-XML char U+{:X}", c as u32)),
                c => v.push(c),
            }
        }
    }
    fn element(&mut self) -> R<Element> {
        // at '<'
        self.i += 1;
        let name = self.name()?;
        let mut attrs: Vec<(String, String)> = vec![];
        loop {
            let had_ws = matches!(self.peek(), Some(' ' | '\t' | '\n' | '\r'));
            self.ws();
            if self.eat("/>") {
                return Ok(Element { name, attrs, children: vec![] });
            }
            if self.eat(">") {
                break;
            }
            if !had_ws {
                return Err("white space required before attribute".into());
            }
            let k = self.name()?;
            self.ws();
            if !self.eat("=") {
                return Err("'=' expected".into());
            }
            self.ws();
            let v = self.attr_value()?;
            if attrs.iter().any(|(kk, _)| *kk == k) {
                return Err(format!("duplicate attribute {k}"));
            }
            attrs.push((k, v));
        }
        let mut children = vec![];
        let mut text = String::new();
        loop {
            if self.starts("</") {
                if !text.is_empty() {
                    children.push(Node::Text(std::mem::take(&mut text)));
                }
                self.i += 2;
                let n = self.name()?;
                if n != name {
                    return Err(format!("mismatched end tag </{n}> for <{name}>"));
                }
                self.ws();
                if !self.eat(">") {
                    return Err("'>' expected in end tag".into());
                }
                return Ok(Element { name, attrs, children });
            }
            if self.starts("<!--") {
                let rest: String = self.s[self.i + 4..].iter().collect();
                let e = rest.find("-->").ok_or("unterminated comment")?;
                self.i += 4 + rest[..e].chars().count() + 3;
                continue;
            }
            if self.starts("<![CDATA[") {
                let rest: String = self.s[self.i + 9..].iter().collect();
                let e = rest.find("]]>").ok_or("unterminated cdata")?;
                text.push_str(&rest[..e]);
                self.i += 9 + rest[..e].chars().count() + 3;
                continue;
            }
            match self.peek() {
                None => return Err(format!("eof inside <{name}>")),
                Some('<') => {
                    if !text.is_empty() {
                        children.push(Node::Text(std::mem::take(&mut text)));
                    }
                    children.push(Node::Elem(self.element()?));
                }
                Some('&') => {
                    self.i += 1;
                    text.push(self.reference()?);
                }
                Some('\r') => {
                    self.i += 1;
                    if self.peek() == Some('\n') {
                        self.i += 1;
                    }
                    text.push('\n');
                }
                Some(c) => {
                    if !is_xml_char(c) {
                        return Err(format!("non-XML char U+{:X}", c as u32));
                    }
                    if c == ']' && self.starts("]]>") {
                        return Err("']]>' in content".into());
                    }
                    self.i += 1;
                    text.push(c);
                }
            }
        }
    }
}

/// Parses a whole document; returns the root element.
pub fn parse(src: &str) -> Result<Element, String> {
    let cs: Vec<char> = src.chars().collect();
    let mut p = P { s: &cs, i: 0 };
    if p.starts("<?xml") {
        let rest: String = cs[p.i..].iter().collect();
        let e = rest.find("?>").ok_or("unterminated xml declaration")?;
        p.i += rest[..e].chars().count() + 2;
    }
    p.ws();
    if p.peek() != Some('<') {
        return Err("root element expected".into());
    }
    let root = p.element()?;
    p.ws();
    if p.i != cs.len() {
        return Err(format!("trailing content at {}", p.i));
    }
    Ok(root)
}

/// Drops white-space-only text nodes that sit between elements (indentation), keeps all other text.
pub fn strip_indent(e: &Element) -> Element {
    let has_elem = e.children.iter().any(|c| matches!(c, Node::Elem(_)));
    let children = e
        .children
        .iter()
        .filter_map(|c| match c {
            Node::Elem(x) => Some(Node::Elem(strip_indent(x))),
            Node::Text(t) => {
                if has_elem && t.chars().all(|c| matches!(c, ' ' | '\n' | '\t' | '\r')) {
                    None
                } else {
                    Some(Node::Text(t.clone()))
                }
            }
        })
        .collect();
    Element { name: e.name.clone(), attrs: e.attrs.clone(), children }
}
