//! qv-harness — generates inputs, runs the real qmluic code in-process and writes, per case, the request
//! for the Lean driver together with the implementation's canonical answer.
//!
//!   qv-harness gen <stream> --seed S --tier quick|thorough --out FILE
//!   qv-harness answer <stream>            (requests on stdin, answers on stdout; used for replay)
mod designer;
mod docgen;
mod dumpenv;
mod ast;
mod env;
mod irser;
mod ledger;
mod proggen;
mod propgen;
mod rng;
mod sexp;
mod xml;
mod streams;
mod typegen;
mod cxxcfg;

use sexp::Sexp;
use std::io::{BufRead, Write};
use std::panic::{catch_unwind, AssertUnwindSafe};
use std::sync::atomic::{AtomicUsize, Ordering};
use std::sync::Mutex;

/// One generated case.
pub struct Case {
    /// "model": the answer is compared with the Lean *model* (correspondence).
    /// "spec" : the answer is compared with the Lean *specification* (property oracle).
    /// "oracle": the answer must be `(ok ...)`: the oracle was evaluated on the Rust side.
    pub kind: &'static str,
    /// labels describing what this case exercises (for the evidence histograms)
    pub labels: Vec<String>,
    pub request: Sexp,
}

pub trait Stream: Sync {
    fn generate(&self, seed: u64, thorough: bool) -> Vec<Case>;
    fn answer(&self, req: &Sexp) -> Sexp;
}

static PHASES: Mutex<Vec<(std::thread::ThreadId, &'static str)>> = Mutex::new(Vec::new());

/// Streams that run third-party code in-process name the phase they are in, so that the watchdog can say where a
/// case that ran out of time was stuck.
pub fn set_phase(phase: &'static str) {
    let id = std::thread::current().id();
    let mut p = PHASES.lock().unwrap();
    match p.iter_mut().find(|(t, _)| *t == id) {
        Some(e) => e.1 = phase,
        None => p.push((id, phase)),
    }
}

fn phase_of(id: std::thread::ThreadId) -> &'static str {
    PHASES.lock().unwrap().iter().find(|(t, _)| *t == id).map(|e| e.1).unwrap_or("unknown")
}

pub fn panic_message(e: Box<dyn std::any::Any + Send>) -> String {
    if let Some(s) = e.downcast_ref::<&str>() {
        (*s).to_owned()
    } else if let Some(s) = e.downcast_ref::<String>() {
        s.clone()
    } else {
        "<non-string panic>".to_owned()
    }
}

pub fn safe_answer(stream: &dyn Stream, req: &Sexp) -> Sexp {
    match catch_unwind(AssertUnwindSafe(|| stream.answer(req))) {
        Ok(a) => a,
        Err(e) => sexp::node("panic", vec![sexp::st(panic_message(e))]),
    }
}

fn main() {
    let args: Vec<String> = std::env::args().collect();
    if args.len() == 2 && args[1] == "dump-env" {
        print!("{}", dumpenv::dump());
        return;
    }
    if args.len() < 3 {
        eprintln!("usage: qv-harness gen|answer <stream> [--seed S] [--tier T] [--out FILE]");
        std::process::exit(2);
    }
    // panics of the code under test are caught and reported as answers; keep stderr quiet
    std::panic::set_hook(Box::new(|_| {}));
    let cmd = args[1].as_str();
    let stream_name = args[2].as_str();
    let mut seed = 0u64;
    let mut thorough = false;
    let mut out = None;
    let mut i = 3;
    while i < args.len() {
        match args[i].as_str() {
            "--seed" => {
                seed = args[i + 1].parse().expect("seed");
                i += 2;
            }
            "--tier" => {
                thorough = args[i + 1] == "thorough";
                i += 2;
            }
            "--out" => {
                out = Some(args[i + 1].clone());
                i += 2;
            }
            a => {
                eprintln!("unknown argument {a}");
                std::process::exit(2);
            }
        }
    }
    let Some(stream) = streams::lookup(stream_name) else {
        eprintln!("unknown stream {stream_name}");
        std::process::exit(2);
    };
    let stream: &dyn Stream = &*stream;
    match cmd {
        "gen" => {
            let cases = stream.generate(seed, thorough);
            let n = cases.len();
            if let Some(k) = std::env::var("QV_DUMP_CASE").ok().and_then(|v| v.parse::<usize>().ok()) {
                println!("{}", cases[k].request.render());
                return;
            }
            let answers: Vec<Mutex<Option<Sexp>>> = (0..n).map(|_| Mutex::new(None)).collect();
            let next = AtomicUsize::new(0);
            let workers = std::thread::available_parallelism().map(|x| x.get()).unwrap_or(4).min(16);
            // what each worker is doing: (case index, since when); the watchdog answers for a case that runs longer
            // than the limit (the code under test is run in-process and cannot be interrupted: the thread is abandoned
            // and the process exits once every other case is answered)
            let limit = std::time::Duration::from_secs(
                std::env::var("QV_CASE_TIMEOUT").ok().and_then(|v| v.parse().ok()).unwrap_or(if thorough { 300 } else { 45 }),
            );
            let busy: Vec<Mutex<Option<(usize, std::time::Instant, std::thread::ThreadId)>>> = (0..workers).map(|_| Mutex::new(None)).collect();
            let path = out.expect("--out required");
            let trace = std::env::var_os("QV_TRACE").is_some();
            let finish = || {
                let mut f = std::io::BufWriter::new(std::fs::File::create(&path).unwrap());
                for (c, a) in cases.iter().zip(&answers) {
                    let a = a.lock().unwrap().clone().unwrap();
                    writeln!(f, "{}\t{}\t{}\t{}", c.kind, c.labels.join(","), c.request.render(), a.render()).unwrap();
                }
                f.flush().unwrap();
                eprintln!("qv-harness: {stream_name}: {n} cases written to {path}");
            };
            std::thread::scope(|s| {
                for w in 0..workers {
                    let (next, answers, busy, cases) = (&next, &answers, &busy, &cases);
                    s.spawn(move || loop {
                        let k = next.fetch_add(1, Ordering::Relaxed);
                        if k >= n {
                            *busy[w].lock().unwrap() = None;
                            break;
                        }
                        set_phase("start");
                        *busy[w].lock().unwrap() = Some((k, std::time::Instant::now(), std::thread::current().id()));
                        if trace {
                            eprintln!("start {k} {}", cases[k].labels.join(","));
                        }
                        let a = safe_answer(stream, &cases[k].request);
                        if trace {
                            eprintln!("done {k}");
                        }
                        let mut slot = answers[k].lock().unwrap();
                        if slot.is_none() {
                            *slot = Some(a);
                        }
                    });
                }
                // watchdog
                let (answers, busy, finish) = (&answers, &busy, &finish);
                s.spawn(move || loop {
                    std::thread::sleep(std::time::Duration::from_millis(200));
                    let mut hung = 0;
                    let mut running = 0;
                    for b in busy.iter() {
                        if let Some((k, since, tid)) = *b.lock().unwrap() {
                            running += 1;
                            if since.elapsed() > limit {
                                hung += 1;
                                let mut slot = answers[k].lock().unwrap();
                                if slot.is_none() {
                                    *slot = Some(sexp::node(
                                        "fail",
                                        vec![
                                            sexp::st("in-process-timeout"),
                                            sexp::node("seconds", vec![sexp::num(limit.as_secs())]),
                                            sexp::node("phase", vec![sexp::st(phase_of(tid))]),
                                        ],
                                    ));
                                }
                            }
                        }
                    }
                    if running == 0 {
                        return; // every worker left its loop: the scope ends normally
                    }
                    if hung > 0 && hung == running && answers.iter().all(|a| a.lock().unwrap().is_some()) {
                        // only abandoned threads are left
                        finish();
                        std::process::exit(0);
                    }
                });
            });
            finish();
        }
        "answer" => {
            // one request per line; each is answered on a helper thread so that a case the code under test does not
            // finish within the limit gets a time-out answer (the thread is abandoned, see "gen")
            let limit = std::time::Duration::from_secs(
                std::env::var("QV_CASE_TIMEOUT").ok().and_then(|v| v.parse().ok()).unwrap_or(if thorough { 300 } else { 45 }),
            );
            let stdin = std::io::stdin();
            let stdout = std::io::stdout();
            let mut abandoned = false;
            std::thread::scope(|s| {
                let mut o = stdout.lock();
                for line in stdin.lock().lines() {
                    let line = line.unwrap();
                    if line.trim().is_empty() {
                        continue;
                    }
                    let a = match Sexp::parse(&line) {
                        Some(req) => {
                            let (tx, rx) = std::sync::mpsc::channel();
                            let h = s.spawn(move || {
                                set_phase("start");
                                let _ = tx.send(safe_answer(stream, &req));
                            });
                            match rx.recv_timeout(limit) {
                                Ok(a) => a,
                                Err(_) => {
                                    abandoned = true;
                                    sexp::node(
                                        "fail",
                                        vec![
                                            sexp::st("in-process-timeout"),
                                            sexp::node("seconds", vec![sexp::num(limit.as_secs())]),
                                            sexp::node("phase", vec![sexp::st(phase_of(h.thread().id()))]),
                                        ],
                                    )
                                }
                            }
                        }
                        None => sexp::node("bad-sexp", vec![]),
                    };
                    writeln!(o, "{}", a.render()).unwrap();
                }
                o.flush().unwrap();
                if abandoned {
                    std::process::exit(0);
                }
            });
        }
        _ => {
            eprintln!("unknown command {cmd}");
            std::process::exit(2);
        }
    }
}
