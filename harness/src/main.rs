//! qv-harness — generates inputs, runs the real qmluic code in-process and writes, per case, the request
//! for the Lean driver together with the implementation's canonical answer.
//!
//!   qv-harness gen <stream> --seed S --tier quick|thorough --out FILE
//!   qv-harness answer <stream>            (requests on stdin, answers on stdout; used for replay)
mod designer;
mod docgen;
mod dumpenv;
mod ast;
mod env;
mod irser;
mod ledger;
mod proggen;
mod propgen;
mod rng;
mod sexp;
mod xml;
mod streams;

use sexp::Sexp;
use std::io::{BufRead, Write};
use std::panic::{catch_unwind, AssertUnwindSafe};
use std::sync::atomic::{AtomicUsize, Ordering};
use std::sync::Mutex;

/// One generated case.
pub struct Case {
    /// "model": the answer is compared with the Lean *model* (correspondence).
    /// "spec" : the answer is compared with the Lean *specification* (property oracle).
    /// "oracle": the answer must be `(ok ...)`: the oracle was evaluated on the Rust side.
    pub kind: &'static str,
    /// labels describing what this case exercises (for the evidence histograms)
    pub labels: Vec<String>,
    pub request: Sexp,
}

pub trait Stream: Sync {
    fn generate(&self, seed: u64, thorough: bool) -> Vec<Case>;
    fn answer(&self, req: &Sexp) -> Sexp;
}

pub fn panic_message(e: Box<dyn std::any::Any + Send>) -> String {
    if let Some(s) = e.downcast_ref::<&str>() {
        (*s).to_owned()
    } else if let Some(s) = e.downcast_ref::<String>() {
        s.clone()
    } else {
        "<non-string panic>".to_owned()
    }
}

pub fn safe_answer(stream: &dyn Stream, req: &Sexp) -> Sexp {
    match catch_unwind(AssertUnwindSafe(|| stream.answer(req))) {
        Ok(a) => a,
        Err(e) => sexp::node("panic", vec![sexp::st(panic_message(e))]),
    }
}

fn main() {
    let args: Vec<String> = std::env::args().collect();
    if args.len() == 2 && args[1] == "dump-env" {
        print!("{}", dumpenv::dump());
        return;
    }
    if args.len() < 3 {
        eprintln!("usage: qv-harness gen|answer <stream> [--seed S] [--tier T] [--out FILE]");
        std::process::exit(2);
    }
    // panics of the code under test are caught and reported as answers; keep stderr quiet
    std::panic::set_hook(Box::new(|_| {}));
    let cmd = args[1].as_str();
    let stream_name = args[2].as_str();
    let mut seed = 0u64;
    let mut thorough = false;
    let mut out = None;
    let mut i = 3;
    while i < args.len() {
        match args[i].as_str() {
            "--seed" => {
                seed = args[i + 1].parse().expect("seed");
                i += 2;
            }
            "--tier" => {
                thorough = args[i + 1] == "thorough";
                i += 2;
            }
            "--out" => {
                out = Some(args[i + 1].clone());
                i += 2;
            }
            a => {
                eprintln!("unknown argument {a}");
                std::process::exit(2);
            }
        }
    }
    let Some(stream) = streams::lookup(stream_name) else {
        eprintln!("unknown stream {stream_name}");
        std::process::exit(2);
    };
    let stream: &dyn Stream = &*stream;
    match cmd {
        "gen" => {
            let cases = stream.generate(seed, thorough);
            let n = cases.len();
            let answers: Vec<Mutex<Option<Sexp>>> = (0..n).map(|_| Mutex::new(None)).collect();
            let next = AtomicUsize::new(0);
            let workers = std::thread::available_parallelism().map(|x| x.get()).unwrap_or(4).min(16);
            std::thread::scope(|s| {
                for _ in 0..workers {
                    s.spawn(|| loop {
                        let k = next.fetch_add(1, Ordering::Relaxed);
                        if k >= n {
                            break;
                        }
                        let a = safe_answer(stream, &cases[k].request);
                        *answers[k].lock().unwrap() = Some(a);
                    });
                }
            });
            let path = out.expect("--out required");
            let mut f = std::io::BufWriter::new(std::fs::File::create(&path).unwrap());
            for (c, a) in cases.iter().zip(&answers) {
                let a = a.lock().unwrap().take().unwrap();
                writeln!(f, "{}\t{}\t{}\t{}", c.kind, c.labels.join(","), c.request.render(), a.render()).unwrap();
            }
            f.flush().unwrap();
            eprintln!("qv-harness: {stream_name}: {n} cases written to {path}");
        }
        "answer" => {
            let stdin = std::io::stdin();
            let stdout = std::io::stdout();
            let mut o = stdout.lock();
            for line in stdin.lock().lines() {
                let line = line.unwrap();
                if line.trim().is_empty() {
                    continue;
                }
                let a = match Sexp::parse(&line) {
                    Some(req) => safe_answer(stream, &req),
                    None => sexp::node("bad-sexp", vec![]),
                };
                writeln!(o, "{}", a.render()).unwrap();
            }
        }
        _ => {
            eprintln!("unknown command {cmd}");
            std::process::exit(2);
        }
    }
}
