//! Re-reads the function bodies of a REAL support header (the goto-structured C++ written by
//! `CxxCodeBodyTranslator`) into the IR s-expression shape of `irser.rs`, abstracting every C++ statement to its
//! definition (the `aN` on the left of `=`) and its uses (every `aK` occurring outside string literals), so that the
//! Lean CFG checker (`Cfg.checkFn`) can be run on what was actually emitted:
//!   (fn "evalAFontPointSize" value|void (code (params P) (locals int …) (blocks (block (stmts …) <term>)…) (deps) (observers 0)))
use crate::sexp::{atom, list, node, num, st, Sexp};

fn strip_strings(line: &str) -> String {
    let mut out = String::new();
    let mut chars = line.chars().peekable();
    let mut in_str = false;
    while let Some(c) = chars.next() {
        if in_str {
            if c == '\\' {
                chars.next();
            } else if c == '"' {
                in_str = false;
            }
        } else if c == '"' {
            in_str = true;
            out.push(' ');
        } else {
            out.push(c);
        }
    }
    out
}

fn locals_in(text: &str) -> Vec<usize> {
    let t = strip_strings(text);
    let b = t.as_bytes();
    let mut v = vec![];
    let mut i = 0;
    while i < b.len() {
        if b[i] == b'a' && (i == 0 || !(b[i - 1].is_ascii_alphanumeric() || b[i - 1] == b'_')) {
            let mut j = i + 1;
            while j < b.len() && b[j].is_ascii_digit() {
                j += 1;
            }
            if j > i + 1 && (j == b.len() || !(b[j].is_ascii_alphanumeric() || b[j] == b'_')) {
                v.push(t[i + 1..j].parse().unwrap());
                i = j;
                continue;
            }
        }
        i += 1;
    }
    v
}

fn local(n: usize) -> Sexp {
    node("local", vec![num(n), atom("int")])
}

fn uses_rvalue(uses: &[usize]) -> Sexp {
    let mut a = vec![atom("mklist"), atom("int")];
    a.extend(uses.iter().map(|&n| local(n)));
    list(a)
}

fn label_of(line: &str) -> Option<usize> {
    let t = line.trim();
    let t = t.strip_suffix(':')?;
    let t = t.strip_prefix('b')?;
    t.parse().ok()
}

fn goto_of(line: &str) -> Option<usize> {
    let t = line.trim();
    let t = t.strip_prefix("goto b")?;
    let t = t.strip_suffix(';')?;
    t.parse().ok()
}

/// All functions of the header that contain a `b0:` label. `Err` describes a body the reader does not understand
/// (reported as a failure: the reader must be kept in line with the emitter).
pub fn functions(header: &str) -> Result<Vec<Sexp>, String> {
    let lines: Vec<&str> = header.lines().collect();
    let mut out = vec![];
    let mut i = 0;
    while i + 1 < lines.len() {
        // a member function: `    <ret> name(args)` followed by `    {`
        let l = lines[i];
        if l.starts_with("    ") && !l.starts_with("     ") && l.trim_end().ends_with(')') && lines[i + 1] == "    {" {
            let head = l.trim();
            let open = head.find('(').ok_or("function head")?;
            let before = &head[..open];
            let name = before.rsplit(|c: char| c.is_whitespace() || c == '*' || c == '&').next().unwrap_or("").to_owned();
            let ret = before[..before.len() - name.len()].trim();
            let args = &head[open + 1..head.len() - 1];
            let params = if args.trim().is_empty() { 0 } else { locals_in(args).len() };
            // body
            let mut j = i + 2;
            let mut body = vec![];
            while j < lines.len() && lines[j] != "    }" {
                body.push(lines[j]);
                j += 1;
            }
            i = j;
            if !body.iter().any(|b| b.trim() == "b0:") {
                continue;
            }
            let value = ret != "void";
            out.push(function(&name, value, params, &body)?);
        }
        i += 1;
    }
    Ok(out)
}

fn function(name: &str, value: bool, params: usize, body: &[&str]) -> Result<Sexp, String> {
    let mut blocks: Vec<(Vec<Sexp>, Option<Sexp>)> = vec![];
    let mut max_local = params;
    let mut k = 0;
    let mut seen_label = false;
    while k < body.len() {
        let line = body[k];
        let t = line.trim();
        k += 1;
        if t.is_empty() || t.starts_with("//") || t.starts_with('#') {
            continue;
        }
        if let Some(n) = label_of(line) {
            if n != blocks.len() {
                return Err(format!("{name}: label b{n} out of order"));
            }
            // falling off the previous block without a terminator is a defect the checker must see: leave it None
            blocks.push((vec![], None));
            seen_label = true;
            continue;
        }
        if !seen_label {
            // declarations of the locals: `T aN;`
            for n in locals_in(t) {
                max_local = max_local.max(n + 1);
            }
            continue;
        }
        let cur = blocks.last_mut().unwrap();
        if cur.1.is_some() {
            return Err(format!("{name}: statement after a terminator: {t}"));
        }
        if let Some(n) = goto_of(line) {
            cur.1 = Some(node("br", vec![num(n)]));
        } else if t.starts_with("if (Q_UNLIKELY(") && t.ends_with('{') {
            // the observer re-subscription snippet of an `observe` statement: a brace block that reads the sender local
            let mut depth = 1;
            let mut uses = locals_in(t);
            while depth > 0 {
                let Some(l) = body.get(k) else { return Err(format!("{name}: unterminated observer block")) };
                let lt = l.trim();
                uses.extend(locals_in(lt));
                depth += lt.matches('{').count();
                depth -= lt.matches('}').count().min(depth);
                k += 1;
            }
            uses.sort();
            uses.dedup();
            cur.0.push(node("exec", vec![uses_rvalue(&uses)]));
        } else if t.starts_with("if (") && t.ends_with(')') {
            let cond = &t[4..t.len() - 1];
            let c = locals_in(cond);
            let a = body.get(k).and_then(|l| goto_of(l));
            let els = body.get(k + 1).map(|l| l.trim() == "else").unwrap_or(false);
            let b = body.get(k + 2).and_then(|l| goto_of(l));
            match (a, els, b) {
                (Some(a), true, Some(b)) => {
                    let cop = match c.as_slice() {
                        [n] => node("local", vec![num(*n), atom("bool")]),
                        [] => node("const", vec![node("bool", vec![atom("true")])]),
                        _ => return Err(format!("{name}: compound condition: {t}")),
                    };
                    cur.1 = Some(node("brcond", vec![cop, num(a), num(b)]));
                    k += 3;
                }
                _ => return Err(format!("{name}: unexpected shape after `{t}`")),
            }
        } else if t == "return;" {
            cur.1 = Some(node("ret", vec![atom("void")]));
        } else if let Some(e) = t.strip_prefix("return ").and_then(|r| r.strip_suffix(';')) {
            let u = locals_in(e);
            let op = match u.as_slice() {
                [n] => local(*n),
                [] => node("const", vec![node("int", vec![num(0)])]),
                _ => return Err(format!("{name}: compound return: {t}")),
            };
            cur.1 = Some(node("ret", vec![op]));
        } else if t.starts_with("Q_UNREACHABLE()") {
            cur.1 = Some(atom("unreachable"));
        } else if t.ends_with(';') {
            // `aN = expr;` defines aN; anything else only uses
            let stripped = strip_strings(t);
            let def = stripped.split_once(" = ").and_then(|(l, _)| {
                let l = l.trim();
                let d = locals_in(l);
                if d.len() == 1 && l == format!("a{}", d[0]) { Some(d[0]) } else { None }
            });
            match def {
                Some(d) => {
                    let rhs = stripped.split_once(" = ").unwrap().1;
                    cur.0.push(node("assign", vec![num(d), uses_rvalue(&locals_in(rhs))]));
                    max_local = max_local.max(d + 1);
                }
                None => cur.0.push(node("exec", vec![uses_rvalue(&locals_in(t))])),
            }
        } else {
            return Err(format!("{name}: line not understood: {t}"));
        }
    }
    let mut bl = vec![atom("blocks")];
    for (stmts, term) in blocks {
        let mut s = vec![atom("stmts")];
        s.extend(stmts);
        // a block the emitter left without terminator falls into the next label: the checker sees `unreachable`
        bl.push(node("block", vec![list(s), term.unwrap_or(atom("unreachable"))]));
    }
    let mut locals = vec![atom("locals")];
    locals.extend((0..max_local).map(|_| atom("int")));
    Ok(node(
        "fn",
        vec![
            st(name),
            atom(if value { "value" } else { "void" }),
            node("code", vec![node("params", vec![num(params)]), list(locals), list(bl), node("deps", vec![]), node("observers", vec![num(0)])]),
        ],
    ))
}
