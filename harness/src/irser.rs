//! Serialisation of qmluic's typed IR (public types of `qmluic::tir`) and of type-map facts into the line
//! protocol's s-expressions — the real side of the exact-IR comparison.  Byte ranges are not serialised.
use crate::sexp::{atom, boolean, list, node, num, st, Sexp};
use qmluic::opcode::{
    BinaryArithOp, BinaryBitwiseOp, BinaryLogicalOp, BinaryOp, BuiltinFunctionKind, ComparisonOp, ConsoleLogLevel, ShiftOp,
    UnaryArithOp, UnaryBitwiseOp, UnaryLogicalOp, UnaryOp,
};
use qmluic::tir::interpret::{EvaluatedValue, StringKind};
use qmluic::tir::{CodeBody, ConstantValue, Operand, Rvalue, Statement, Terminator};
use qmluic::typemap::{Method, MethodKind, NamedType, PrimitiveType, Property, TypeKind, TypeSpace as _};

pub fn named(t: &NamedType) -> Sexp {
    match t {
        NamedType::Primitive(p) => atom(match p {
            PrimitiveType::Bool => "bool",
            PrimitiveType::Double => "double",
            PrimitiveType::Int => "int",
            PrimitiveType::QString => "QString",
            PrimitiveType::QVariant => "QVariant",
            PrimitiveType::Uint => "uint",
            PrimitiveType::Void => "void",
        }),
        NamedType::Enum(e) => node("enum", vec![st(e.qualified_cxx_name())]),
        NamedType::Class(c) => node("cls", vec![st(c.qualified_cxx_name())]),
        NamedType::Namespace(n) => node("ns", vec![st(n.qualified_cxx_name())]),
        NamedType::QmlComponent(c) => node("comp", vec![st(c.as_class().qualified_cxx_name())]),
    }
}

pub fn type_kind(t: &TypeKind) -> Sexp {
    match t {
        TypeKind::Just(n) => named(n),
        TypeKind::Pointer(n) => node("ptr", vec![named(n)]),
        TypeKind::List(e) => node("list", vec![type_kind(e)]),
    }
}

pub fn method(m: &Method) -> Sexp {
    let mut args = vec![atom("args")];
    args.extend(m.argument_types().iter().map(type_kind));
    node(
        "m",
        vec![
            st(m.object_class().qualified_cxx_name()),
            st(m.name()),
            list(args),
            type_kind(m.return_type()),
            atom(match m.kind() {
                MethodKind::Signal => "signal",
                MethodKind::Slot => "slot",
                MethodKind::Method => "method",
            }),
        ],
    )
}

pub fn property(p: &Property) -> Sexp {
    let notify = match p.notify_signal() {
        None => atom("_"),
        Some(Err(_)) => atom("err"),
        Some(Ok(m)) => method(&m),
    };
    node(
        "p",
        vec![
            st(p.object_class().qualified_cxx_name()),
            st(p.name()),
            type_kind(p.value_type()),
            boolean(p.is_readable()),
            boolean(p.is_writable()),
            boolean(p.is_constant()),
            notify,
            st(p.read_func_name().unwrap_or("")),
            st(p.write_func_name().unwrap_or("")),
        ],
    )
}

/// floats are compared by bit pattern, NaNs canonicalised (sign and payload of a NaN are not meaningful)
pub fn float_bits(f: f64) -> Sexp {
    if f.is_nan() {
        node("float", vec![atom("nan")])
    } else {
        node("float", vec![num(f.to_bits())])
    }
}

pub fn constant(v: &ConstantValue) -> Sexp {
    match v {
        ConstantValue::Bool(b) => node("bool", vec![boolean(*b)]),
        ConstantValue::Integer(i) => node("int", vec![num(*i)]),
        ConstantValue::Float(f) => float_bits(*f),
        ConstantValue::CString(s) => node("cstr", vec![st(s.clone())]),
        ConstantValue::QString(s) => node("qstr", vec![st(s.clone())]),
        ConstantValue::NullPointer => atom("null"),
        ConstantValue::EmptyList => atom("emptylist"),
    }
}

pub fn operand(a: &Operand) -> Sexp {
    match a {
        Operand::Constant(c) => node("const", vec![constant(&c.value)]),
        Operand::EnumVariant(e) => node("enumv", vec![st(e.ty.qualified_cxx_name()), st(e.variant.clone())]),
        Operand::Local(l) => node("local", vec![num(l.name.0), type_kind(&l.ty)]),
        Operand::NamedObject(o) => node("obj", vec![st(o.name.0.clone()), st(o.cls.qualified_cxx_name())]),
        Operand::Void(_) => atom("void"),
    }
}

pub fn unary_op(op: &UnaryOp) -> &'static str {
    match op {
        UnaryOp::Arith(UnaryArithOp::Plus) => "plus",
        UnaryOp::Arith(UnaryArithOp::Minus) => "minus",
        UnaryOp::Bitwise(UnaryBitwiseOp::Not) => "bitnot",
        UnaryOp::Logical(UnaryLogicalOp::Not) => "lognot",
    }
}

pub fn binary_op(op: &BinaryOp) -> &'static str {
    match op {
        BinaryOp::Arith(BinaryArithOp::Add) => "add",
        BinaryOp::Arith(BinaryArithOp::Sub) => "sub",
        BinaryOp::Arith(BinaryArithOp::Mul) => "mul",
        BinaryOp::Arith(BinaryArithOp::Div) => "div",
        BinaryOp::Arith(BinaryArithOp::Rem) => "rem",
        BinaryOp::Bitwise(BinaryBitwiseOp::And) => "band",
        BinaryOp::Bitwise(BinaryBitwiseOp::Xor) => "bxor",
        BinaryOp::Bitwise(BinaryBitwiseOp::Or) => "bor",
        BinaryOp::Shift(ShiftOp::RightShift) => "shr",
        BinaryOp::Shift(ShiftOp::LeftShift) => "shl",
        BinaryOp::Logical(BinaryLogicalOp::And) => "land",
        BinaryOp::Logical(BinaryLogicalOp::Or) => "lor",
        BinaryOp::Comparison(ComparisonOp::Equal) => "eq",
        BinaryOp::Comparison(ComparisonOp::NotEqual) => "ne",
        BinaryOp::Comparison(ComparisonOp::LessThan) => "lt",
        BinaryOp::Comparison(ComparisonOp::LessThanEqual) => "le",
        BinaryOp::Comparison(ComparisonOp::GreaterThan) => "gt",
        BinaryOp::Comparison(ComparisonOp::GreaterThanEqual) => "ge",
    }
}

pub fn builtin(f: &BuiltinFunctionKind) -> &'static str {
    match f {
        BuiltinFunctionKind::ConsoleLog(ConsoleLogLevel::Log) => "console-log",
        BuiltinFunctionKind::ConsoleLog(ConsoleLogLevel::Debug) => "console-debug",
        BuiltinFunctionKind::ConsoleLog(ConsoleLogLevel::Info) => "console-info",
        BuiltinFunctionKind::ConsoleLog(ConsoleLogLevel::Warn) => "console-warn",
        BuiltinFunctionKind::ConsoleLog(ConsoleLogLevel::Error) => "console-error",
        BuiltinFunctionKind::Max => "max",
        BuiltinFunctionKind::Min => "min",
        BuiltinFunctionKind::Tr => "tr",
    }
}

fn ops(tag: &str, head: Vec<Sexp>, args: &[Operand]) -> Sexp {
    let mut v = head;
    v.extend(args.iter().map(operand));
    node(tag, v)
}

pub fn rvalue(r: &Rvalue) -> Sexp {
    match r {
        Rvalue::Copy(a) => node("copy", vec![operand(a)]),
        Rvalue::UnaryOp(op, a) => node("unary", vec![atom(unary_op(op)), operand(a)]),
        Rvalue::BinaryOp(op, l, r) => node("binary", vec![atom(binary_op(op)), operand(l), operand(r)]),
        Rvalue::StaticCast(t, a) => node("scast", vec![type_kind(t), operand(a)]),
        Rvalue::VariantCast(t, a) => node("vcast", vec![type_kind(t), operand(a)]),
        Rvalue::CallBuiltinFunction(f, args) => ops("builtin", vec![atom(builtin(f))], args),
        Rvalue::CallMethod(o, m, args) => ops("call", vec![operand(o), method(m)], args),
        Rvalue::ReadProperty(o, p) => node("readprop", vec![operand(o), property(p)]),
        Rvalue::WriteProperty(o, p, v) => node("writeprop", vec![operand(o), property(p), operand(v)]),
        Rvalue::ReadSubscript(o, i) => node("readsub", vec![operand(o), operand(i)]),
        Rvalue::WriteSubscript(o, i, v) => node("writesub", vec![operand(o), operand(i), operand(v)]),
        Rvalue::MakeList(t, args) => ops("mklist", vec![type_kind(t)], args),
    }
}

pub fn statement(s: &Statement) -> Sexp {
    match s {
        Statement::Assign(l, r) => node("assign", vec![num(l.0), rvalue(r)]),
        Statement::Exec(r) => node("exec", vec![rvalue(r)]),
        Statement::ObserveProperty(h, l, m) => node("observe", vec![num(h.0), num(l.0), method(m)]),
    }
}

pub fn terminator(t: &Terminator) -> Sexp {
    match t {
        Terminator::Br(l) => node("br", vec![num(l.0)]),
        Terminator::BrCond(c, a, b) => node("brcond", vec![operand(c), num(a.0), num(b.0)]),
        Terminator::Return(a) => node("ret", vec![operand(a)]),
        Terminator::Unreachable => atom("unreachable"),
    }
}

pub fn code_body(c: &CodeBody) -> Sexp {
    let mut locals = vec![atom("locals")];
    locals.extend(c.locals.iter().map(|l| type_kind(&l.ty)));
    let mut blocks = vec![atom("blocks")];
    for b in &c.basic_blocks {
        let mut stmts = vec![atom("stmts")];
        stmts.extend(b.statements.iter().map(statement));
        blocks.push(node("block", vec![list(stmts), terminator(b.terminator())]));
    }
    let mut deps = vec![atom("deps")];
    deps.extend(c.static_property_deps.iter().map(|(o, m)| list(vec![st(o.0.clone()), method(m)])));
    node(
        "code",
        vec![
            node("params", vec![num(c.parameter_count)]),
            list(locals),
            list(blocks),
            list(deps),
            node("observers", vec![num(c.property_observer_count)]),
        ],
    )
}

pub fn evaluated(v: &Option<EvaluatedValue>) -> Sexp {
    let k = |k: &StringKind| atom(if *k == StringKind::Tr { "tr" } else { "notr" });
    match v {
        None => atom("none"),
        Some(EvaluatedValue::Bool(b)) => node("bool", vec![boolean(*b)]),
        Some(EvaluatedValue::Integer(i)) => node("int", vec![num(*i)]),
        Some(EvaluatedValue::Float(f)) => float_bits(*f),
        Some(EvaluatedValue::String(s, kk)) => node("str", vec![st(s.clone()), k(kk)]),
        Some(EvaluatedValue::StringList(xs)) => node("strlist", xs.iter().map(|(s, kk)| list(vec![st(s.clone()), k(kk)])).collect()),
        Some(EvaluatedValue::EnumSet(es)) => node("enumset", es.iter().map(|e| st(e.clone())).collect()),
        Some(EvaluatedValue::ObjectRef(s)) => node("objref", vec![st(s.clone())]),
        Some(EvaluatedValue::ObjectRefList(ss)) => node("objreflist", ss.iter().map(|e| st(e.clone())).collect()),
        Some(EvaluatedValue::EmptyList) => atom("emptylist"),
    }
}
